/*
 * threads_c17 - ThreadSanitizer world for C17: one service thread runs cat_service(), 1-8 producer threads call the
 * locking API concurrently; the mutex interface is backed by a real pthread mutex.  Each producer triggers events on
 * its own command, so deliveries are attributable: after joining and draining, delivered == accepted per producer.
 *
 * Configuration on stdin (one directive per line):
 *   PROD <n>                       number of producers
 *   OPS <p> <repeat> <op> <op> ... op list of producer p, executed <repeat> times
 *        ops: 0 trigger READ, 1 trigger TEST, 2 is_full, 3 is_busy, 4 is_hold, 5 hold_exit(OK), 6 hold_exit(ERROR),
 *             7 sched_yield, 8 short sleep, 9 trigger via cat_trigger_unsolicited_read, 10 via _test
 *   INPUT <hex>                    bytes for the service thread's io read (command traffic)
 *   WS <n> <n> ...                 write back-pressure run lengths (accept, refuse, accept, ...), cycled
 *   RUN
 * Output: "P <p> accepted <a> full <f> delivered <d> other <o>" per producer, then "RESULT ok|mismatch".
 * Compiled once per ring capacity with clang -fsanitize=thread.
 */
#define _GNU_SOURCE
#include <pthread.h>
#include <sched.h>
#include <stdio.h>
#include <stdlib.h>
#include <string.h>
#include <unistd.h>
#include <stdint.h>
#include "cat.h"

#define MAXP 8
#define MAXOPS 256

static struct cat_object at;
static pthread_mutex_t mtx = PTHREAD_MUTEX_INITIALIZER;
static int m_lock(void) { return pthread_mutex_lock(&mtx); }
static int m_unlock(void) { return pthread_mutex_unlock(&mtx); }
static struct cat_mutex_interface mutex_if = { m_lock, m_unlock };

static int nprod;
static int ops[MAXP][MAXOPS], nops[MAXP], repeat[MAXP];
static long accepted[MAXP], full[MAXP], other[MAXP];     /* written by producer p only */
static long delivered[MAXP];                               /* written by the service thread only */
static long hold_entered;                                  /* service thread only */
static uint8_t *input;
static size_t inlen, inpos;
static int ws[64], nws, wsi, wsleft;
static long out_bytes;
static int producers_done;      /* service thread only */
static volatile long progress;      /* bumped (racy on purpose, relaxed atomics) by every thread after each API call */
static int finished;           /* atomics only */

#define TICK() __atomic_fetch_add(&progress, 1, __ATOMIC_RELAXED)

/* a deadlock (e.g. a mutex that is never released) shows as NO progress of ANY thread; slowness does not */
static void *watchdog(void *arg)
{
        long last = -1;
        int still = 0;
        (void)arg;
        while (!__atomic_load_n(&finished, __ATOMIC_ACQUIRE)) {
                long now;
                usleep(100000);
                now = __atomic_load_n(&progress, __ATOMIC_RELAXED);
                if (now == last) {
                        if (++still >= 100) {
                                printf("NO-PROGRESS for 10 s: deadlock (progress counter %ld)\nRESULT deadlock\n", now);
                                fflush(stdout);
                                _exit(4);
                        }
                } else {
                        still = 0;
                        last = now;
                }
        }
        return NULL;
}

static struct cat_command cmds[MAXP + 2];
static char names[MAXP + 2][8];

static int pidx(const struct cat_command *c) { return (int)(c - cmds); }

static cat_return_state ev_read(const struct cat_command *c, uint8_t *d, size_t *n, size_t m)
{
        (void)d; (void)n; (void)m;
        delivered[pidx(c)]++;
        if (delivered[pidx(c)] % 7 == 3)
                return CAT_RETURN_STATE_HOLD_EXIT_OK;      /* releases a held command from inside cat_service (lock already held) */
        return (delivered[pidx(c)] & 1) ? CAT_RETURN_STATE_DATA_OK : CAT_RETURN_STATE_OK;
}

static cat_return_state ev_test(const struct cat_command *c, uint8_t *d, size_t *n, size_t m)
{
        (void)d; (void)n; (void)m;
        delivered[pidx(c)]++;
        if (delivered[pidx(c)] % 5 == 2)
                return CAT_RETURN_STATE_HOLD_EXIT_ERROR;
        return (delivered[pidx(c)] & 2) ? CAT_RETURN_STATE_DATA_OK : CAT_RETURN_STATE_OK;
}

static cat_return_state w_write(const struct cat_command *c, const uint8_t *d, size_t n, size_t a)
{
        (void)c; (void)a;
        if (n > 0 && d[0] == 'h') {
                hold_entered++;
                return CAT_RETURN_STATE_HOLD;
        }
        return CAT_RETURN_STATE_OK;
}

static int io_w(char ch)
{
        (void)ch;
        if (nws) {
                while (wsleft == 0) {
                        wsi = (wsi + 1) % nws;
                        wsleft = ws[wsi];
                        if (wsleft == 0 && nws == 1)
                                break;
                }
                if (wsleft > 0)
                        wsleft--;
                if (wsi % 2 == 1)
                        return 0;
        }
        out_bytes++;
        return 1;
}

static int io_r(char *ch)
{
        if (inpos >= inlen)
                return 0;
        *ch = (char)input[inpos++];
        return 1;
}

static struct cat_io_interface io_if = { io_w, io_r };

static void *producer(void *arg)
{
        int p = (int)(intptr_t)arg, r, i;
        for (r = 0; r < repeat[p]; r++) {
                for (i = 0; i < nops[p]; i++) {
                        cat_status s;
                        TICK();
                        switch (ops[p][i]) {
                        case 0:
                        case 1:
                                s = cat_trigger_unsolicited_event(&at, &cmds[p], ops[p][i] ? CAT_CMD_TYPE_TEST : CAT_CMD_TYPE_READ);
                                if (s == CAT_STATUS_OK) accepted[p]++;
                                else if (s == CAT_STATUS_ERROR_BUFFER_FULL) full[p]++;
                                else other[p]++;
                                break;
                        case 9:
                                s = cat_trigger_unsolicited_read(&at, &cmds[p]);
                                if (s == CAT_STATUS_OK) accepted[p]++;
                                else if (s == CAT_STATUS_ERROR_BUFFER_FULL) full[p]++;
                                else other[p]++;
                                break;
                        case 10:
                                s = cat_trigger_unsolicited_test(&at, &cmds[p]);
                                if (s == CAT_STATUS_OK) accepted[p]++;
                                else if (s == CAT_STATUS_ERROR_BUFFER_FULL) full[p]++;
                                else other[p]++;
                                break;
                        case 2:
                                s = cat_is_unsolicited_buffer_full(&at);
                                if (s != CAT_STATUS_OK && s != CAT_STATUS_ERROR_BUFFER_FULL) other[p]++;
                                break;
                        case 3:
                                s = cat_is_busy(&at);
                                if (s != CAT_STATUS_OK && s != CAT_STATUS_BUSY) other[p]++;
                                break;
                        case 4:
                                s = cat_is_hold(&at);
                                if (s != CAT_STATUS_OK && s != CAT_STATUS_HOLD) other[p]++;
                                break;
                        case 5:
                        case 6:
                                s = cat_hold_exit(&at, ops[p][i] == 5 ? CAT_STATUS_OK : CAT_STATUS_ERROR);
                                if (s != CAT_STATUS_OK && s != CAT_STATUS_ERROR_NOT_HOLD) other[p]++;
                                break;
                        case 11: {
                                /* a paced producer: waits for room instead of giving up, so that one parser object accepts many
                                 * hundreds of events (ring counters wrap) whatever the relative speed of the threads */
                                int tries = 0;
                                do {
                                        s = cat_trigger_unsolicited_event(&at, &cmds[p], (r & 1) ? CAT_CMD_TYPE_TEST : CAT_CMD_TYPE_READ);
                                        if (s == CAT_STATUS_ERROR_BUFFER_FULL) {
                                                full[p]++;
                                                sched_yield();
                                        }
                                } while (s == CAT_STATUS_ERROR_BUFFER_FULL && ++tries < 5000);
                                if (s == CAT_STATUS_OK) accepted[p]++;
                                else if (s != CAT_STATUS_ERROR_BUFFER_FULL) other[p]++;
                                break;
                        }
                        case 7:
                                sched_yield();
                                break;
                        case 8:
                                usleep(20);
                                break;
                        default:
                                break;
                        }
                }
        }
        return NULL;
}

static size_t unhex(const char *s, uint8_t **outp)
{
        size_t n = strlen(s) / 2, i;
        uint8_t *p = malloc(n + 1);
        for (i = 0; i < n; i++) {
                unsigned v = 0;
                sscanf(s + 2 * i, "%2x", &v);
                p[i] = (uint8_t)v;
        }
        *outp = p;
        return n;
}

int main(void)
{
        static char line[1 << 16];
        static uint8_t buf[256];
        static struct cat_command_group grp;
        static struct cat_command_group *grps[1];
        static struct cat_descriptor desc;
        pthread_t th[MAXP];
        int p, i, ok = 1, idle = 0;
        long guard = 0;

        while (fgets(line, sizeof line, stdin)) {
                char *tok = strtok(line, " \n");
                if (!tok)
                        continue;
                if (!strcmp(tok, "PROD")) {
                        nprod = atoi(strtok(NULL, " \n"));
                        if (nprod < 1) nprod = 1;
                        if (nprod > MAXP) nprod = MAXP;
                } else if (!strcmp(tok, "OPS")) {
                        char *t;
                        p = atoi(strtok(NULL, " \n"));
                        if (p < 0 || p >= MAXP)
                                continue;
                        repeat[p] = atoi(strtok(NULL, " \n"));
                        nops[p] = 0;
                        while ((t = strtok(NULL, " \n")) != NULL && nops[p] < MAXOPS)
                                ops[p][nops[p]++] = atoi(t);
                } else if (!strcmp(tok, "INPUT")) {
                        char *t = strtok(NULL, " \n");
                        if (t && strcmp(t, "-"))
                                inlen = unhex(t, &input);
                } else if (!strcmp(tok, "WS")) {
                        char *t;
                        nws = 0;
                        while ((t = strtok(NULL, " \n")) != NULL && nws < 64)
                                ws[nws++] = atoi(t);
                        wsi = 0;
                        wsleft = nws ? ws[0] : 0;
                } else if (!strcmp(tok, "RUN")) {
                        break;
                }
        }
        for (p = 0; p < nprod; p++) {
                snprintf(names[p], sizeof names[p], "#P%d", p);
                cmds[p].name = names[p];
                cmds[p].read = ev_read;
                cmds[p].test = ev_test;
        }
        snprintf(names[nprod], sizeof names[nprod], "+W");
        cmds[nprod].name = names[nprod];
        cmds[nprod].write = w_write;
        grp.cmd = cmds;
        grp.cmd_num = (size_t)nprod + 1;
        grps[0] = &grp;
        desc.cmd_group = grps;
        desc.cmd_group_num = 1;
        desc.buf = buf;
        desc.buf_size = sizeof buf;
        cat_init(&at, &desc, &io_if, &mutex_if);

        {
                pthread_t wd;
                pthread_create(&wd, NULL, watchdog, NULL);
                pthread_detach(wd);
        }
        for (p = 0; p < nprod; p++)
                pthread_create(&th[p], NULL, producer, (void *)(intptr_t)p);
        /* service loop runs concurrently with the producers */
        {
                int joined[MAXP] = { 0 };
                while (!producers_done) {
                        int alive = 0;
                        cat_service(&at);
                        TICK();
                        if ((++guard & 63) == 0) {
                                for (p = 0; p < nprod; p++) {
                                        if (!joined[p] && pthread_tryjoin_np(th[p], NULL) == 0)
                                                joined[p] = 1;
                                        if (!joined[p])
                                                alive = 1;
                                }
                                if (!alive)
                                        producers_done = 1;
                        }
                }
        }
        /* drain: release a pending hold, then service until quiescent */
        for (i = 0; i < 2000000 && idle < 3; i++) {
                cat_status s;
                if (cat_is_hold(&at) == CAT_STATUS_HOLD)
                        cat_hold_exit(&at, CAT_STATUS_OK);
                s = cat_service(&at);
                TICK();
                idle = (s == CAT_STATUS_OK && inpos >= inlen) ? idle + 1 : 0;
        }
        for (p = 0; p < nprod; p++) {
                printf("P %d accepted %ld full %ld delivered %ld other %ld\n", p, accepted[p], full[p], delivered[p], other[p]);
                if (accepted[p] != delivered[p] || other[p] != 0)
                        ok = 0;
        }
        printf("HOLDS %ld OUT %ld DRAINED %d\n", hold_entered, out_bytes, idle >= 3);
        if (idle < 3)
                ok = 0;
        __atomic_store_n(&finished, 1, __ATOMIC_RELEASE);
        printf("RESULT %s\n", ok ? "ok" : "mismatch");
        return ok ? 0 : 3;
}
