/* catworld.h - builder API of the world (used by the text protocol and by the fuzz targets) */
#ifndef CATWORLD_H
#define CATWORLD_H
#include <stdio.h>
#include <stdint.h>
#include <stddef.h>

/* run flags */
#define WF_SAMPLE    1   /* sample processed command / cat_is_busy / cat_is_hold after every step */
#define WF_LINERESET 2   /* scripts and variable-callback counters restart at every consumed LF */
#define WF_PROBE     4   /* after every OK from cat_service call it again with no stimulus (C15) */
#define WF_MONVARS   8   /* report every change of variable storage */
#define WF_MONBUF    16  /* report every change of the command / unsolicited working regions */
#define WF_DUMPLF    32  /* dump all variables whenever an LF is consumed */
#define WF_BRACKET   64  /* bracket every locking API call with snapshots (C16) */
#define WF_C01MON    128 /* streaming C01 monitor: result codes vs terminated lines, no read-ahead (no events / HOLD in such runs) */
#define WF_SAMPLE_LOCKED 256 /* with WF_SAMPLE: sample cat_is_busy / cat_is_hold after every step even when a mutex is configured (extra lock/unlock pairs) */
#define WF_KEEP      256 /* w_run does not need the final variables again: nothing (reserved) */

/* action kinds */
#define WA_TRIG 1
#define WA_HOLDEXIT 2
#define WA_ISFULL 3
#define WA_ISBUFFERED 4
#define WA_GETPROCESSED 5
#define WA_ISBUSY 6
#define WA_ISHOLD 7
#define WA_SETDIS 8
#define WA_SETGDIS 9
#define WA_POKE 10
#define WA_DUMP 11

void w_set_output(FILE *f);
long w_violations(void);
long w_stat(int which);
uint64_t w_hash(int which);   /* 0 output bytes, 1 callback sequence, 2 final variable bytes */
const char *w_violation_text(void);
void w_reset(void);
void w_buf(int is_shared, size_t bsz, size_t usz);
void w_group(const uint8_t *name, size_t nlen, int has_name, int disable);
void w_group_alias(const uint8_t *name, size_t nlen, int has_name, int disable, int src);
void w_cmd(const uint8_t *name, size_t nlen, const uint8_t *d, size_t dlen, int has_desc,
           int need_all, int only_test, int disable, int implicit, int hmask);
void w_var(const uint8_t *name, size_t nlen, int has_name, int type, size_t size, int access,
           const uint8_t *init, size_t ilen, int rcb, int wcb, int rfail, int wfail);
void w_script_step(int fsm, int kind, int code, int edit, const uint8_t *tag, size_t taglen,
                   int act, int a1, int a2, const uint8_t *a3, size_t a3len);
void w_input(const uint8_t *p, size_t n);
void w_sched(int which, const int *arr, int n);
void w_action(int when_kind, long when, int kind, int a1, int a2, const uint8_t *a3, size_t a3len);
void w_mutex(const int *lf, int nlf, const int *uf, int nuf);
void w_flags(int f);
void w_run(long budget, long stall_n);

size_t shim_object_size(void);
size_t shim_queue_capacity(void);
#endif
