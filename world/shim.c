/* shim.c - the only place that knows the size of struct cat_object (depends on the ring capacity) */
#include "cat.h"
#include "catworld.h"
size_t shim_object_size(void) { return sizeof(struct cat_object); }
size_t shim_queue_capacity(void) { return (size_t)CAT_UNSOLICITED_CMD_BUFFER_SIZE; }
