/* fuzz_common.h - statistics shared by the libFuzzer targets: executions, non-trivial executions, distinct non-trivial
 * input hashes, dumped to $FUZZ_STATS at exit (and before a trap, since a trap skips atexit). */
#ifndef FUZZ_COMMON_H
#define FUZZ_COMMON_H
static uint64_t *seen;
static size_t seen_cap = 1u << 21, seen_n;
static unsigned long long total_execs, nontrivial_execs;
static char stats_path[512];

static void dump_stats(void)
{
        FILE *f;
        size_t i;
        if (!stats_path[0])
                return;
        f = fopen(stats_path, "wb");
        if (!f)
                return;
        fprintf(f, "execs %llu nontrivial %llu distinct %zu\n", total_execs, nontrivial_execs, seen_n);
        for (i = 0; i < seen_cap; i++)
                if (seen && seen[i])
                        fwrite(&seen[i], 8, 1, f);
        fclose(f);
}

static void note_nontrivial(const uint8_t *data, size_t size)
{
        uint64_t h = 1469598103934665603ull;
        size_t i, k;
        for (i = 0; i < size; i++)
                h = (h ^ data[i]) * 1099511628211ull;
        if (h == 0)
                h = 1;
        if (!seen)
                seen = calloc(seen_cap, 8);
        nontrivial_execs++;
        if (seen_n * 2 > seen_cap)
                return;
        k = (size_t)(h & (seen_cap - 1));
        while (seen[k] && seen[k] != h)
                k = (k + 1) & (seen_cap - 1);
        if (!seen[k]) {
                seen[k] = h;
                seen_n++;
        }
}

int LLVMFuzzerInitialize(int *argc, char ***argv)
{
        const char *p = getenv("FUZZ_STATS");
        (void)argc;
        (void)argv;
        if (p) {
                snprintf(stats_path, sizeof stats_path, "%s", p);
                atexit(dump_stats);
        }
        return 0;
}
#endif
