/*
 * catworld - the "world" process of the cAT verification harness.
 *
 * Reads case descriptions (a flattened Spec, DESIGN.md section 3.1 / appendix B) in a line
 * protocol on stdin, builds the real cat_descriptor / cat_command / cat_variable structures
 * with exact-size heap blocks, drives the unmodified library through cat_service() and the
 * rest of the public API, and prints a trace of everything that is observable from outside
 * the library.  One process serves many cases; the world is torn down and rebuilt for every
 * case, nothing leaks from one case into the next.
 *
 * The same file is compiled with -DWORLD_NO_MAIN into the libFuzzer targets, which fill the
 * world through the builder functions (w_*) instead of the text protocol.
 *
 * It never looks inside struct cat_object (shim.c supplies its size), so oracles cannot
 * depend on the library's private fields.
 */
#include <stdio.h>
#include <stdlib.h>
#include <string.h>
#include <stdint.h>
#include <stdarg.h>
#include "cat.h"
#include "catworld.h"

#define MAXCMD 320
#define MAXVAR 8
#define MAXSCR 24
#define MAXACT 2048
#define MAXGRP 8
#define MAXSCHED 1024
#define MAXFAIL 64
#define GUARD 16
#define GUARD_BYTE 0xC7

struct step { int code, edit, act, a1, a2; uint8_t *tag; size_t taglen; uint8_t *a3; size_t a3len; };
struct script { int n, pos; struct step s[MAXSCR]; };
struct wvar { int rfail, wfail, rcalls, wcalls; uint8_t *shadow; uint8_t *block; };
struct wcmd { char *name, *desc; struct script sc[2][4]; int nvar; struct wvar var[MAXVAR]; };
struct action { int when_kind; long when; int kind, a1, a2; uint8_t *a3; size_t a3len; int done; };

/* the descriptor structures handed to the library live in fresh heap blocks for every case (allocated before the previous
 * case's blocks are freed, so the addresses differ): a pointer the library kept from an earlier cat_init is stale memory
 * (use-after-free under ASan), never silently valid */
static struct cat_command *cmds;
static struct wcmd wc[MAXCMD];
static int ncmd;
static struct cat_variable (*vars)[MAXVAR];
/* what the library is handed: per command an array of exactly var_num descriptors in its own heap block, so that a read of
 * var[var_num] (or through a stale pointer of an earlier case) is visible to the sanitizer */
static struct cat_variable *exactv[MAXCMD];
static struct cat_command_group *groups;
static struct cat_command_group **gptr;
static char *gname[MAXGRP];
static int ngrp, gstart[MAXGRP + 1], galias[MAXGRP];
static struct cat_descriptor desc;
static struct cat_object *at;
static size_t at_size;
static uint8_t *buf, *ubuf, *buf_shadow, *ubuf_shadow;
static size_t bufsz, ubufsz, ccap, ucap;
static int shared;
static uint8_t *input;
static size_t inlen, inpos;
static int rs[MAXSCHED], nrs, rsi, rsleft, ws[MAXSCHED], nws, wsi, wsleft;
static struct action acts[MAXACT];
static int nact;
static long stepno, refused_r, refused_w, refused_r_midline;
static int flags, lf_count, in_probe, activity, midline;
static int w_held;      /* harness-side knowledge: a command handler returned HOLD and no release has been accepted since */
static int mtx_on, lockn, unlockn, lockfail[MAXFAIL], nlockfail, unlockfail[MAXFAIL], nunlockfail, locked;
static int last_refused_byte = -1;
static int in_service;
static long n_handler_calls, n_writes, n_trig_calls, n_reads, n_u_hold;
static int early_isolation_reported;
static int read_found_empty;   /* an io read attempt of the current cat_service call returned 0 */
/* running hashes (C12 differential inside the fuzz target) and the streaming C01 monitor */
static uint64_t out_hash, cb_hash;
static long mon_lines_terminated, mon_results_done;
static int mon_line_nonblank, mon_prev_chunk_empty, mon_chunk_len;
static char mon_chunk[8];
#define HASH_INIT 1469598103934665603ull
#define HASH_STEP(h, b) ((h) = ((h) ^ (uint64_t)(uint8_t)(b)) * 1099511628211ull)

static void hash_bytes(uint64_t *h, const void *p, size_t n)
{
        const uint8_t *b = p;
        size_t i;
        for (i = 0; i < n; i++)
                HASH_STEP(*h, b[i]);
}

static void hash_long(uint64_t *h, long v) { hash_bytes(h, &v, sizeof v); }
static uint8_t *buf_pristine, *ubuf_pristine;
static long world_violations;
static char world_violation_text[256];

/* snapshots for the mutex bracket (C16): object, buffers, variables */
static uint8_t *snap_entry, *snap_unlock;
static size_t snap_size;
static int bracket_open, saw_lock, saw_unlock, changed_before_lock;

static FILE *out;

void w_set_output(FILE *f) { out = f; }
long w_violations(void) { return world_violations; }
long w_stat(int which) { return which == 0 ? n_handler_calls : which == 1 ? n_writes : which == 2 ? n_trig_calls : n_reads; }
uint64_t w_hash(int which)
{
        if (which == 0)
                return out_hash;
        if (which == 1)
                return cb_hash;
        {
                /* final variable bytes */
                uint64_t h = HASH_INIT;
                int i, k;
                for (i = 0; i < ncmd; i++)
                        for (k = 0; k < wc[i].nvar; k++)
                                hash_bytes(&h, vars[i][k].data, vars[i][k].data_size);
                return h;
        }
}
const char *w_violation_text(void) { return world_violation_text; }

static void emit(const char *fmt, ...)
{
        va_list ap;
        if (out == NULL)
                return;
        va_start(ap, fmt);
        vfprintf(out, fmt, ap);
        va_end(ap);
}

static void violation(const char *what)
{
        world_violations++;
        if (world_violation_text[0] == 0)
                snprintf(world_violation_text, sizeof world_violation_text, "%s", what);
        emit("X %ld %s\n", stepno, what);
}

static void hexout(const uint8_t *p, size_t n)
{
        static const char *d = "0123456789abcdef";
        size_t i;
        if (out == NULL)
                return;
        if (n == 0) {
                fputc('-', out);
                return;
        }
        for (i = 0; i < n; i++) {
                fputc(d[p[i] >> 4], out);
                fputc(d[p[i] & 15], out);
        }
}

/* ---------- memory helpers ---------- */

static uint8_t *dupbytes(const uint8_t *p, size_t n)
{
        uint8_t *r = malloc(n + 1);
        if (n)
                memcpy(r, p, n);
        r[n] = 0;
        return r;
}

static size_t snapshot_size(void)
{
        size_t n = at_size + bufsz + ubufsz;
        int i, k;
        for (i = 0; i < ncmd; i++)
                for (k = 0; k < wc[i].nvar; k++)
                        n += vars[i][k].data_size;
        return n;
}

static void snapshot_take(uint8_t *dst)
{
        size_t o = 0;
        int i, k;
        memcpy(dst + o, at, at_size); o += at_size;
        memcpy(dst + o, buf, bufsz); o += bufsz;
        if (ubufsz) { memcpy(dst + o, ubuf, ubufsz); o += ubufsz; }
        for (i = 0; i < ncmd; i++)
                for (k = 0; k < wc[i].nvar; k++) {
                        memcpy(dst + o, vars[i][k].data, vars[i][k].data_size);
                        o += vars[i][k].data_size;
                }
}

static int snapshot_differs(const uint8_t *ref)
{
        static uint8_t *tmp; static size_t tmpsz;
        if (tmpsz < snap_size) { free(tmp); tmp = malloc(snap_size + 1); tmpsz = snap_size; }
        snapshot_take(tmp);
        return memcmp(tmp, ref, snap_size) != 0;
}

/* ---------- io ---------- */

static int sched_next(int *arr, int n, int *idx, int *left)
{
        while (*idx < n && *left == 0) {
                (*idx)++;
                if (*idx < n)
                        *left = arr[*idx];
        }
        if (*idx >= n)
                return 1;
        (*left)--;
        return ((*idx) % 2) == 0;
}

static int barrier_pending(void)
{
        int i;
        for (i = 0; i < nact; i++)
                if (!acts[i].done && acts[i].when_kind == 1 && acts[i].when == lf_count)
                        return 1;
        return 0;
}

static void var_dump(const char *tag, long n)
{
        int i, k;
        for (i = 0; i < ncmd; i++)
                for (k = 0; k < wc[i].nvar; k++) {
                        emit("F %s%ld %d %d ", tag, n, i, k);
                        hexout(vars[i][k].data, vars[i][k].data_size);
                        emit("\n");
                }
}

static int io_w(char c)
{
        activity = 1;
        if (mtx_on && locked != 1)
                violation("io-write-outside-lock");
        if (last_refused_byte >= 0 && last_refused_byte != (uint8_t)c)
                violation("refused-byte-not-reoffered");
        if (!in_probe && !sched_next(ws, nws, &wsi, &wsleft)) {
                int rv;
                refused_w++;
                rv = (refused_w % 3 == 0) ? -1 : ((refused_w % 3 == 1) ? 0 : 2);
                last_refused_byte = (uint8_t)c;
                emit("w %ld %02x %d\n", stepno, (uint8_t)c, rv);
                return rv;
        }
        last_refused_byte = -1;
        n_writes++;
        HASH_STEP(out_hash, c);
        if (flags & WF_C01MON) {
                if (c == '\n') {
                        int len = mon_chunk_len;
                        if (len > 0 && len <= 7 && mon_chunk[len - 1] == '\r')
                                len--;
                        if (mon_chunk_len <= 7 && mon_prev_chunk_empty &&
                            ((len == 2 && memcmp(mon_chunk, "OK", 2) == 0) || (len == 5 && memcmp(mon_chunk, "ERROR", 5) == 0))) {
                                mon_results_done++;
                                if (mon_results_done > mon_lines_terminated)
                                        violation("c01-result-code-without-terminated-line");
                        }
                        mon_prev_chunk_empty = (len == 0);
                        mon_chunk_len = 0;
                } else {
                        if (mon_chunk_len < 7)
                                mon_chunk[mon_chunk_len] = c;
                        if (mon_chunk_len < 100)
                                mon_chunk_len++;
                }
        }
        emit("W %ld %02x\n", stepno, (uint8_t)c);
        return 1;
}

static int io_r(char *c)
{
        int i, f, k;
        if (mtx_on && locked != 1)
                violation("io-read-outside-lock");
        if (in_probe == 1)
                return 0;               /* the probed call had polled the input and found it empty: no NEW byte for the probe */
        if (inpos >= inlen) {
                read_found_empty = 1;
                return 0;
        }
        if (barrier_pending()) {
                read_found_empty = 1;
                return 0;
        }
        if (!sched_next(rs, nrs, &rsi, &rsleft)) {
                refused_r++;
                if (midline)
                        refused_r_midline++;
                read_found_empty = 1;
                return 0;
        }
        activity = 1;
        n_reads++;
        if ((flags & WF_C01MON) && mon_results_done < mon_lines_terminated)
                violation("c01-read-ahead-before-result-code-complete");
        if (flags & WF_C01MON) {
                if (input[inpos] == '\n') {
                        if (mon_line_nonblank)
                                mon_lines_terminated++;
                        mon_line_nonblank = 0;
                } else if (input[inpos] != '\r') {
                        mon_line_nonblank = 1;
                }
        }
        *c = (char)input[inpos];
        emit("R %ld %zu %02x\n", stepno, inpos, input[inpos]);
        if (input[inpos] == '\n') {
                midline = 0;
                lf_count++;
                if (flags & WF_DUMPLF)
                        var_dump("lf", lf_count);
                if (flags & WF_LINERESET) {
                        for (i = 0; i < ncmd; i++) {
                                for (f = 0; f < 2; f++)
                                        for (k = 0; k < 4; k++)
                                                wc[i].sc[f][k].pos = 0;
                                for (k = 0; k < wc[i].nvar; k++) {
                                        wc[i].var[k].rcalls = 0;
                                        wc[i].var[k].wcalls = 0;
                                }
                        }
                }
        } else if (input[inpos] != '\r') {
                midline = 1;
        }
        inpos++;
        return 1;
}

/* ---------- mutex ---------- */

static int in_set(int *a, int n, int v)
{
        int i;
        for (i = 0; i < n; i++)
                if (a[i] == v)
                        return 1;
        return 0;
}

static int m_lock(void)
{
        int f;
        lockn++;
        f = in_set(lockfail, nlockfail, lockn);
        if (bracket_open) {
                if (!saw_lock && snapshot_differs(snap_entry))
                        changed_before_lock = 1;
                saw_lock++;
        }
        emit("L %ld %d %d %d\n", stepno, lockn, f, locked);
        if (!f && locked > 0)
                return 35;      /* not recursive: a second lock by the holder is refused (EDEADLK), as an error-checking mutex does */
        if (!f)
                locked++;
        return f ? ((lockn & 1) ? 7 : -4) : 0;
}

static int m_unlock(void)
{
        int f;
        unlockn++;
        f = in_set(unlockfail, nunlockfail, unlockn);
        emit("U %ld %d %d %d\n", stepno, unlockn, f, locked);
        locked--;
        if (bracket_open) {
                saw_unlock++;
                snapshot_take(snap_unlock);
        }
        return f ? ((unlockn & 1) ? -3 : 9) : 0;
}

static struct cat_mutex_interface mtx = { m_lock, m_unlock };

/* ---------- API calls with optional bracket ---------- */

static void bracket_begin(const char *api)
{
        if (!(flags & WF_BRACKET))
                return;
        emit("B %ld %s\n", stepno, api);
        snapshot_take(snap_entry);
        bracket_open = 1;
        saw_lock = saw_unlock = changed_before_lock = 0;
}

static void bracket_end(const char *api, int result)
{
        int changed_total, changed_after_unlock;
        if (!(flags & WF_BRACKET))
                return;
        bracket_open = 0;
        changed_total = snapshot_differs(snap_entry);
        changed_after_unlock = saw_unlock ? snapshot_differs(snap_unlock) : 0;
        emit("E %ld %s %d %d %d %d\n", stepno, api, result, changed_total, changed_before_lock, changed_after_unlock);
}

static void do_act(int kind, int a1, int a2, const uint8_t *a3, size_t a3len)
{
        cat_status r;
        const struct cat_command *pc;
        switch (kind) {
        case WA_TRIG:
                if (a1 < 0 || a1 >= ncmd)
                        return;
                n_trig_calls++;
                if (a2 == 2) {
                        bracket_begin("trig_read");
                        r = cat_trigger_unsolicited_read(at, &cmds[a1]);
                        bracket_end("trig_read", r);
                        emit("%c %ld trig %d 0 %d\n", in_service ? 'a' : 'A', stepno, a1, r);
                } else if (a2 == 3) {
                        bracket_begin("trig_test");
                        r = cat_trigger_unsolicited_test(at, &cmds[a1]);
                        bracket_end("trig_test", r);
                        emit("%c %ld trig %d 1 %d\n", in_service ? 'a' : 'A', stepno, a1, r);
                } else {
                        bracket_begin("trig_event");
                        r = cat_trigger_unsolicited_event(at, &cmds[a1], a2 ? CAT_CMD_TYPE_TEST : CAT_CMD_TYPE_READ);
                        bracket_end("trig_event", r);
                        emit("%c %ld trig %d %d %d\n", in_service ? 'a' : 'A', stepno, a1, a2 ? 1 : 0, r);
                }
                break;
        case WA_HOLDEXIT:
                bracket_begin("hold_exit");
                r = cat_hold_exit(at, a1 ? CAT_STATUS_ERROR : CAT_STATUS_OK);
                bracket_end("hold_exit", r);
                if (r == CAT_STATUS_OK || r == CAT_STATUS_ERROR_MUTEX_UNLOCK)
                        w_held = 0;     /* (a failed unlock comes after the release was recorded) */
                emit("%c %ld holdexit %d %d\n", in_service ? 'a' : 'A', stepno, a1 ? 1 : 0, r);
                break;
        case WA_ISFULL:
                bracket_begin("is_full");
                r = cat_is_unsolicited_buffer_full(at);
                bracket_end("is_full", r);
                emit("%c %ld isfull %d\n", in_service ? 'a' : 'A', stepno, r);
                break;
        case WA_ISBUFFERED:
                if (a1 < 0 || a1 >= ncmd)
                        return;
                r = cat_is_unsolicited_event_buffered(at, &cmds[a1], (cat_cmd_type)a2);
                emit("%c %ld isbuf %d %d %d\n", in_service ? 'a' : 'A', stepno, a1, a2, r);
                break;
        case WA_GETPROCESSED:
                pc = cat_get_processed_command(at, a1 ? CAT_FSM_TYPE_UNSOLICITED : CAT_FSM_TYPE_ATCMD);
                emit("%c %ld getproc %d %d\n", in_service ? 'a' : 'A', stepno, a1 ? 1 : 0, pc ? (int)(pc - cmds) : -1);
                break;
        case WA_ISBUSY:
                bracket_begin("is_busy");
                r = cat_is_busy(at);
                bracket_end("is_busy", r);
                emit("%c %ld isbusy %d\n", in_service ? 'a' : 'A', stepno, r);
                break;
        case WA_ISHOLD:
                bracket_begin("is_hold");
                r = cat_is_hold(at);
                bracket_end("is_hold", r);
                emit("%c %ld ishold %d\n", in_service ? 'a' : 'A', stepno, r);
                break;
        case WA_SETDIS:
                if (a1 < 0 || a1 >= ncmd)
                        return;
                cmds[a1].disable = a2 ? true : false;
                emit("%c %ld setdis %d %d\n", in_service ? 'a' : 'A', stepno, a1, a2 ? 1 : 0);
                break;
        case WA_SETGDIS:
                if (a1 < 0 || a1 >= ngrp)
                        return;
                groups[a1].disable = a2 ? true : false;
                emit("%c %ld setgdis %d %d\n", in_service ? 'a' : 'A', stepno, a1, a2 ? 1 : 0);
                break;
        case WA_POKE:
                if (a1 < 0 || a1 >= ncmd || a2 < 0 || a2 >= wc[a1].nvar)
                        return;
                {
                        size_t n = vars[a1][a2].data_size;
                        if (a3len < n)
                                n = a3len;
                        memcpy(vars[a1][a2].data, a3, n);
                        memcpy(wc[a1].var[a2].shadow, vars[a1][a2].data, vars[a1][a2].data_size);
                        emit("%c %ld poke %d %d ", in_service ? 'a' : 'A', stepno, a1, a2);
                        hexout(vars[a1][a2].data, vars[a1][a2].data_size);
                        emit("\n");
                }
                break;
        case WA_DUMP:
                var_dump("a", stepno);
                break;
        default:
                break;
        }
}

/* ---------- handlers ---------- */

static int cmdidx(const struct cat_command *c) { return (int)(c - cmds); }

static struct step *next_step(int ci, int fsm, int kind)
{
        struct script *s = &wc[ci].sc[fsm][kind];
        if (s->pos < s->n)
                return &s->s[s->pos++];
        return NULL;
}

static cat_return_state h_text(const struct cat_command *c, uint8_t *d, size_t *n, size_t m, int kind)
{
        int ci = cmdidx(c);
        uint8_t *ureg = shared ? buf + (bufsz >> 1) : ubuf;
        int fsm = (d == buf) ? 0 : 1;
        size_t cap = fsm ? ucap : ccap;
        int inside = (fsm ? (d == ureg) : (d == buf)) && m == cap;
        int nul, code = CAT_RETURN_STATE_OK;
        size_t seen = *n, i;
        struct step *s;

        activity = 1;
        n_handler_calls++;
        if (mtx_on && locked != 1)
                violation("handler-outside-lock");
        if (!inside)
                violation("handler-capacity-or-pointer-wrong");
        emit("H %ld %c %d %c ", stepno, fsm ? 'u' : 'c', ci, kind == 1 ? 'r' : 't');
        if (seen > m)
                seen = m; /* never read beyond the claimed capacity */
        hexout(d, seen);
        nul = (*n < m) ? (d[*n] == 0) : 0;
        emit(" %zu 0 %zu %d ", *n, m, inside | (nul << 1));
        /* the handler may use the whole capacity it is told about: touch every byte of it */
        for (i = 0; i < m; i++) {
                volatile uint8_t t = d[i];
                d[i] = t;
        }
        s = next_step(ci, fsm, kind);
        if (s) {
                code = s->code;
                if (s->edit == 1 && s->taglen < m) {
                        memcpy(d, s->tag, s->taglen);
                        d[s->taglen] = 0;
                        *n = s->taglen;
                } else if (s->edit == 2 && *n + s->taglen < m) {
                        memcpy(d + *n, s->tag, s->taglen);
                        *n += s->taglen;
                        d[*n] = 0;
                } else if (s->edit == 3) {
                        *n = m;          /* text untouched (still NUL-terminated), length reported as the full capacity */
                } else if (s->edit == 4) {
                        *n = 0;          /* text untouched, length reported as 0 */
                }
        }
        hexout(d, strnlen((const char *)d, m));   /* the text the library will emit: up to the terminator */
        emit(" %d\n", code);
        hash_long(&cb_hash, 100 + kind + 10 * fsm); hash_long(&cb_hash, ci); hash_long(&cb_hash, (long)seen); hash_bytes(&cb_hash, d, strnlen((const char *)d, m)); hash_long(&cb_hash, code);
        if (fsm == 1 && code == CAT_RETURN_STATE_HOLD)
                n_u_hold++;   /* parks the command FSM (outside every statement, DESIGN 4.6): it may then emit a result code of its own */
        if (s && s->act)
                do_act(s->act, s->a1, s->a2, s->a3, s->a3len);
        if (fsm == 0 && code == CAT_RETURN_STATE_HOLD)
                w_held = 1;
        if (fsm == 1 && (code == CAT_RETURN_STATE_HOLD_EXIT_OK || code == CAT_RETURN_STATE_HOLD_EXIT_ERROR))
                w_held = 0;
        return (cat_return_state)code;
}

static cat_return_state h_read(const struct cat_command *c, uint8_t *d, size_t *n, size_t m) { return h_text(c, d, n, m, 1); }
static cat_return_state h_test(const struct cat_command *c, uint8_t *d, size_t *n, size_t m) { return h_text(c, d, n, m, 3); }

static cat_return_state h_write(const struct cat_command *c, const uint8_t *d, size_t n, size_t a)
{
        int ci = cmdidx(c), code;
        struct step *s;
        size_t i;
        volatile uint8_t t = 0;
        activity = 1;
        n_handler_calls++;
        if (mtx_on && locked != 1)
                violation("handler-outside-lock");
        /* reads data[0..n] (including the terminator it is promised) */
        for (i = 0; i <= n; i++)
                t ^= d[i];
        (void)t;
        emit("H %ld c %d w ", stepno, ci);
        hexout(d, n);
        emit(" %zu %zu 0 %d ", n, a, (d == buf) | ((d[n] == 0) << 1));
        s = next_step(ci, 0, 0);
        code = s ? s->code : CAT_RETURN_STATE_OK;
        emit("- %d\n", code);
        hash_long(&cb_hash, 200); hash_long(&cb_hash, ci); hash_long(&cb_hash, (long)n); hash_long(&cb_hash, (long)a); hash_bytes(&cb_hash, d, n); hash_long(&cb_hash, code);
        if (s && s->act)
                do_act(s->act, s->a1, s->a2, s->a3, s->a3len);
        if (code == CAT_RETURN_STATE_HOLD)
                w_held = 1;
        return (cat_return_state)code;
}

static cat_return_state h_run(const struct cat_command *c)
{
        int ci = cmdidx(c), code;
        struct step *s = next_step(ci, 0, 2);
        activity = 1;
        n_handler_calls++;
        if (mtx_on && locked != 1)
                violation("handler-outside-lock");
        code = s ? s->code : CAT_RETURN_STATE_OK;
        emit("H %ld c %d n - 0 0 0 3 - %d\n", stepno, ci, code);
        hash_long(&cb_hash, 300); hash_long(&cb_hash, ci); hash_long(&cb_hash, code);
        if (s && s->act)
                do_act(s->act, s->a1, s->a2, s->a3, s->a3len);
        if (code == CAT_RETURN_STATE_HOLD)
                w_held = 1;
        return (cat_return_state)code;
}

static int find_var(const struct cat_variable *v, int *ci, int *vi)
{
        long off = (long)((const char *)v - (const char *)&vars[0][0]);
        long idx;
        int i;
        for (i = 0; i < ncmd; i++)
                if (exactv[i] != NULL && v >= exactv[i] && v < exactv[i] + wc[i].nvar) {
                        *ci = i;
                        *vi = (int)(v - exactv[i]);
                        return 1;
                }
        if (off < 0 || (size_t)off >= sizeof(struct cat_variable) * MAXCMD * MAXVAR || off % (long)sizeof(struct cat_variable))
                return 0;
        idx = off / (long)sizeof(struct cat_variable);
        *ci = (int)(idx / MAXVAR);
        *vi = (int)(idx % MAXVAR);
        return *ci < ncmd && *vi < wc[*ci].nvar;
}

/* "non-zero" failure values of variable callbacks: positive, negative, small, large */
static int fail_value(int k)
{
        static const int vals[6] = { 1, -2, 22, -128, 0x7fffffff, -1 };
        return vals[(unsigned)k % 6];
}

static int v_read(const struct cat_variable *v)
{
        int ci = 0, vi = 0, r;
        struct wvar *w;
        activity = 1;
        if (mtx_on && locked != 1)
                violation("varcb-outside-lock");
        if (!find_var(v, &ci, &vi)) {
                violation("varcb-unknown-variable");
                return 1;
        }
        w = &wc[ci].var[vi];
        r = (++w->rcalls == w->rfail) ? fail_value(ci + vi + w->rcalls) : 0;
        emit("V %ld %d %d r 0 %d\n", stepno, ci, vi, r);
        hash_long(&cb_hash, 400); hash_long(&cb_hash, ci); hash_long(&cb_hash, vi); hash_long(&cb_hash, r);
        return r;
}

static int v_write(const struct cat_variable *v, size_t n)
{
        int ci = 0, vi = 0, r;
        struct wvar *w;
        activity = 1;
        if (mtx_on && locked != 1)
                violation("varcb-outside-lock");
        if (!find_var(v, &ci, &vi)) {
                violation("varcb-unknown-variable");
                return 1;
        }
        w = &wc[ci].var[vi];
        r = (++w->wcalls == w->wfail) ? fail_value(ci + vi + w->wcalls + 1) : 0;
        emit("V %ld %d %d w %zu %d\n", stepno, ci, vi, n, r);
        hash_long(&cb_hash, 500); hash_long(&cb_hash, ci); hash_long(&cb_hash, vi); hash_long(&cb_hash, (long)n); hash_long(&cb_hash, r);
        return r;
}

static struct cat_io_interface io = { io_w, io_r };

/* ---------- builder API ---------- */

void w_reset(void)
{
        int i, k, f;
        for (i = 0; i < ncmd; i++) {
                free(wc[i].name);
                free(wc[i].desc);
                for (k = 0; k < wc[i].nvar; k++) {
                        free(wc[i].var[k].block);
                        free(wc[i].var[k].shadow);
                        free((void *)vars[i][k].name);
                }
                free(exactv[i]);
                exactv[i] = NULL;
                for (f = 0; f < 2; f++)
                        for (k = 0; k < 4; k++) {
                                int j;
                                for (j = 0; j < wc[i].sc[f][k].n; j++) {
                                        free(wc[i].sc[f][k].s[j].tag);
                                        free(wc[i].sc[f][k].s[j].a3);
                                }
                        }
        }
        for (i = 0; i < ngrp; i++) {
                free(gname[i]);
                gname[i] = NULL;
        }
        for (i = 0; i < nact; i++)
                free(acts[i].a3);
        memset(wc, 0, sizeof(wc[0]) * (size_t)(ncmd ? ncmd : 1));
        {
                struct cat_command *ocmds = cmds;
                struct cat_variable (*ovars)[MAXVAR] = vars;
                struct cat_command_group *ogroups = groups;
                struct cat_command_group **ogptr = gptr;
                cmds = calloc(MAXCMD, sizeof *cmds);
                vars = calloc(MAXCMD, sizeof *vars);
                groups = calloc(MAXGRP, sizeof *groups);
                gptr = calloc(MAXGRP, sizeof *gptr);
                free(ocmds); free(ovars); free(ogroups); free(ogptr);
        }
        memset(acts, 0, sizeof(acts[0]) * (size_t)(nact ? nact : 1));
        ncmd = ngrp = nact = 0;
        free(buf); free(ubuf); free(buf_shadow); free(ubuf_shadow); free(buf_pristine); free(ubuf_pristine);
        buf = ubuf = buf_shadow = ubuf_shadow = buf_pristine = ubuf_pristine = NULL;
        n_handler_calls = n_writes = n_trig_calls = n_reads = n_u_hold = 0;
        early_isolation_reported = 0;
        out_hash = cb_hash = HASH_INIT;
        mon_lines_terminated = mon_results_done = 0;
        mon_line_nonblank = mon_chunk_len = 0;
        mon_prev_chunk_empty = 0;
        bufsz = ubufsz = ccap = ucap = 0;
        free(input);
        input = NULL;
        inlen = inpos = 0;
        nrs = nws = rsi = wsi = rsleft = wsleft = 0;
        stepno = 0;
        flags = 0;
        mtx_on = lockn = unlockn = nlockfail = nunlockfail = locked = 0;
        w_held = 0;
        refused_r = refused_w = refused_r_midline = 0;
        lf_count = in_probe = activity = midline = 0;
        in_service = 0;
        last_refused_byte = -1;
        free(at);
        at = NULL;
        free(snap_entry); free(snap_unlock);
        snap_entry = snap_unlock = NULL;
        bracket_open = 0;
        world_violations = 0;
        world_violation_text[0] = 0;
}

void w_buf(int is_shared, size_t bsz, size_t usz)
{
        shared = is_shared;
        bufsz = bsz;
        buf = malloc(bsz ? bsz : 1);
        memset(buf, 0xA5, bsz);
        if (is_shared) {
                ccap = ucap = bsz >> 1;
                ubufsz = 0;
                ubuf = NULL;
        } else {
                ccap = bsz;
                ucap = usz;
                ubufsz = usz;
                ubuf = malloc(usz ? usz : 1);
                memset(ubuf, 0x5A, usz);
        }
}

void w_group(const uint8_t *name, size_t nlen, int has_name, int disable)
{
        if (ngrp >= MAXGRP)
                return;
        gstart[ngrp] = ncmd;
        galias[ngrp] = -1;
        groups[ngrp].disable = disable ? true : false;
        gname[ngrp] = has_name ? (char *)dupbytes(name, nlen) : NULL;
        groups[ngrp].name = gname[ngrp];
        ngrp++;
}

/* a group that registers the command array of an earlier (own-array) group a second time */
void w_group_alias(const uint8_t *name, size_t nlen, int has_name, int disable, int src)
{
        if (ngrp >= MAXGRP || src < 0 || src >= ngrp || galias[src] >= 0)
                return;
        w_group(name, nlen, has_name, disable);
        galias[ngrp - 1] = src;
}

void w_cmd(const uint8_t *name, size_t nlen, const uint8_t *d, size_t dlen, int has_desc,
           int need_all, int only_test, int disable, int implicit, int hmask)
{
        if (ncmd >= MAXCMD)
                return;
        wc[ncmd].name = (char *)dupbytes(name, nlen);
        cmds[ncmd].name = wc[ncmd].name;
        if (has_desc) {
                wc[ncmd].desc = (char *)dupbytes(d, dlen);
                cmds[ncmd].description = wc[ncmd].desc;
        }
        cmds[ncmd].need_all_vars = need_all ? true : false;
        cmds[ncmd].only_test = only_test ? true : false;
        cmds[ncmd].disable = disable ? true : false;
        cmds[ncmd].implicit_write = implicit ? true : false;
        if (hmask & 1) cmds[ncmd].write = h_write;
        if (hmask & 2) cmds[ncmd].read = h_read;
        if (hmask & 4) cmds[ncmd].run = h_run;
        if (hmask & 8) cmds[ncmd].test = h_test;
        ncmd++;
}

void w_var(const uint8_t *name, size_t nlen, int has_name, int type, size_t size, int access,
           const uint8_t *init, size_t ilen, int rcb, int wcb, int rfail, int wfail)
{
        int ci = ncmd - 1, k;
        struct cat_variable *v;
        struct wvar *w;
        if (ci < 0 || wc[ci].nvar >= MAXVAR || size == 0)
                return;
        k = wc[ci].nvar++;
        v = &vars[ci][k];
        w = &wc[ci].var[k];
        if (has_name)
                v->name = (char *)dupbytes(name, nlen);
        v->type = (cat_var_type)type;
        v->data_size = size;
        v->access = (cat_var_access)access;
#ifdef WORLD_GUARD
        w->block = malloc(size + 2 * GUARD);
        memset(w->block, GUARD_BYTE, size + 2 * GUARD);
        v->data = w->block + GUARD;
#else
        w->block = malloc(size);
        v->data = w->block;
#endif
        memset(v->data, 0, size);
        memcpy(v->data, init, ilen < size ? ilen : size);
        w->shadow = malloc(size);
        memcpy(w->shadow, v->data, size);
        if (rcb) v->read = v_read;
        if (wcb) v->write = v_write;
        w->rfail = rfail;
        w->wfail = wfail;
        cmds[ci].var = vars[ci];
        cmds[ci].var_num = (size_t)wc[ci].nvar;
}

void w_script_step(int fsm, int kind, int code, int edit, const uint8_t *tag, size_t taglen,
                   int act, int a1, int a2, const uint8_t *a3, size_t a3len)
{
        int ci = ncmd - 1;
        struct script *s;
        struct step *st;
        if (ci < 0 || fsm < 0 || fsm > 1 || kind < 0 || kind > 3)
                return;
        s = &wc[ci].sc[fsm][kind];
        if (s->n >= MAXSCR)
                return;
        st = &s->s[s->n++];
        st->code = code;
        st->edit = edit;
        st->tag = dupbytes(tag, taglen);
        st->taglen = taglen;
        st->act = act;
        st->a1 = a1;
        st->a2 = a2;
        st->a3 = dupbytes(a3, a3len);
        st->a3len = a3len;
}

void w_input(const uint8_t *p, size_t n)
{
        free(input);
        input = dupbytes(p, n);
        inlen = n;
        inpos = 0;
}

void w_sched(int which, const int *arr, int n)
{
        int i;
        if (n > MAXSCHED)
                n = MAXSCHED;
        if (which == 0) {
                for (i = 0; i < n; i++) rs[i] = arr[i];
                nrs = n; rsi = 0; rsleft = n ? rs[0] : 0;
        } else {
                for (i = 0; i < n; i++) ws[i] = arr[i];
                nws = n; wsi = 0; wsleft = n ? ws[0] : 0;
        }
}

void w_action(int when_kind, long when, int kind, int a1, int a2, const uint8_t *a3, size_t a3len)
{
        if (nact >= MAXACT)
                return;
        acts[nact].when_kind = when_kind;
        acts[nact].when = when;
        acts[nact].kind = kind;
        acts[nact].a1 = a1;
        acts[nact].a2 = a2;
        acts[nact].a3 = dupbytes(a3, a3len);
        acts[nact].a3len = a3len;
        acts[nact].done = 0;
        nact++;
}

void w_mutex(const int *lf, int nlf, const int *uf, int nuf)
{
        int i;
        mtx_on = 1;
        nlockfail = nlf > MAXFAIL ? MAXFAIL : nlf;
        nunlockfail = nuf > MAXFAIL ? MAXFAIL : nuf;
        for (i = 0; i < nlockfail; i++) lockfail[i] = lf[i];
        for (i = 0; i < nunlockfail; i++) unlockfail[i] = uf[i];
}

void w_flags(int f) { flags = f; }

static void monitors_after_step(void)
{
        int i, k;
        size_t half = bufsz >> 1;
        /* half isolation while it is certain that the respective state machine has nothing to do (C03): until the first
         * trigger call the unsolicited region stays pristine, until the first input byte the command region does */
        if (!early_isolation_reported && buf_pristine != NULL) {
                if (n_trig_calls == 0 && (shared ? memcmp(buf + half, buf_pristine + half, bufsz - half) != 0
                                                 : (ubufsz && memcmp(ubuf, ubuf_pristine, ubufsz) != 0))) {
                        violation("unsolicited-region-touched-without-event");
                        early_isolation_reported = 1;
                }
                if (n_reads == 0 && n_u_hold == 0 && memcmp(buf, buf_pristine, shared ? half : bufsz) != 0) {
                        violation("command-region-touched-without-input");
                        early_isolation_reported = 1;
                }
        }
        if (flags & WF_MONVARS) {
                for (i = 0; i < ncmd; i++)
                        for (k = 0; k < wc[i].nvar; k++)
                                if (memcmp(wc[i].var[k].shadow, vars[i][k].data, vars[i][k].data_size) != 0) {
                                        emit("M %ld v %d %d ", stepno, i, k);
                                        hexout(vars[i][k].data, vars[i][k].data_size);
                                        emit("\n");
                                        memcpy(wc[i].var[k].shadow, vars[i][k].data, vars[i][k].data_size);
                                }
        }
        if (flags & WF_MONBUF) {
                if (shared) {
                        if (memcmp(buf_shadow, buf, half) != 0) {
                                emit("M %ld c\n", stepno);
                                memcpy(buf_shadow, buf, half);
                        }
                        if (memcmp(buf_shadow + half, buf + half, bufsz - half) != 0) {
                                emit("M %ld u\n", stepno);
                                memcpy(buf_shadow + half, buf + half, bufsz - half);
                        }
                } else {
                        if (memcmp(buf_shadow, buf, bufsz) != 0) {
                                emit("M %ld c\n", stepno);
                                memcpy(buf_shadow, buf, bufsz);
                        }
                        if (ubufsz && memcmp(ubuf_shadow, ubuf, ubufsz) != 0) {
                                emit("M %ld u\n", stepno);
                                memcpy(ubuf_shadow, ubuf, ubufsz);
                        }
                }
        }
}

/* actions bound to a line barrier or to a stall are performed between service call s and s+1: they are
 * logged as pre-actions of step s+1 */
static int fire_actions(int when_kind, long when)
{
        int i, fired = 0;
        if (when_kind != 0)
                stepno++;
        for (i = 0; i < nact; i++)
                if (!acts[i].done && acts[i].when_kind == when_kind && acts[i].when == when) {
                        acts[i].done = 1;
                        do_act(acts[i].kind, acts[i].a1, acts[i].a2, acts[i].a3, acts[i].a3len);
                        fired++;
                }
        if (when_kind != 0)
                stepno--;
        return fired;
}

static int step_actions_left(void)
{
        int i;
        for (i = 0; i < nact; i++)
                if (!acts[i].done && acts[i].when_kind == 0)
                        return 1;
        return 0;
}

static int service_call(void)
{
        int s;
        bracket_begin("service");
        in_service = 1;
        s = cat_service(at);
        in_service = 0;
        bracket_end("service", s);
        return s;
}

void w_run(long budget, long stall_n)
{
        int g, i, k, s, last = -99, okrun = 0, lp = -2, lb = -2, lh = -2;
        long refused_locks_in_a_row = 0;
        long idle = 0, stalls = 0;
        const char *why = "budget";

        if (ngrp == 0 || ncmd == 0 || buf == NULL) {
                emit("Q 0 invalid 0 0 0 0 0 0\nEND\n");
                if (out) fflush(out);
                return;
        }
        gstart[ngrp] = ncmd;
        for (g = 0; g < ngrp; g++) {
                groups[g].cmd = &cmds[gstart[g]];
                groups[g].cmd_num = (size_t)(gstart[g + 1] - gstart[g]);
                if (galias[g] >= 0) {
                        groups[g].cmd = groups[galias[g]].cmd;
                        groups[g].cmd_num = groups[galias[g]].cmd_num;
                }
                gptr[g] = &groups[g];
        }
        {
                /* supported descriptor domain: the packed match state (2 bits per registration) must fit the command capacity */
                size_t slots = 0;
                for (g = 0; g < ngrp; g++)
                        slots += groups[g].cmd_num;
                if ((slots + 3) / 4 > ccap) {
                        emit("Q 0 invalid 0 0 0 0 0 0\nEND\n");
                        if (out) fflush(out);
                        return;
                }
        }
        for (i = 0; i < ncmd; i++) {
                free(exactv[i]);
                exactv[i] = NULL;
                if (wc[i].nvar > 0) {
                        exactv[i] = malloc((size_t)wc[i].nvar * sizeof(struct cat_variable));
                        memcpy(exactv[i], vars[i], (size_t)wc[i].nvar * sizeof(struct cat_variable));
                        cmds[i].var = exactv[i];
                }
        }
        memset(&desc, 0, sizeof desc);
        desc.cmd_group = gptr;
        desc.cmd_group_num = (size_t)ngrp;
        desc.buf = buf;
        desc.buf_size = bufsz;
        desc.unsolicited_buf = shared ? NULL : ubuf;
        desc.unsolicited_buf_size = shared ? 0 : ubufsz;
        at_size = shim_object_size();
        at = malloc(at_size);
        memset(at, 0x3C, at_size);
        cat_init(at, &desc, &io, mtx_on ? &mtx : NULL);
        buf_shadow = malloc(bufsz ? bufsz : 1);
        memcpy(buf_shadow, buf, bufsz);
        ubuf_shadow = malloc(ubufsz ? ubufsz : 1);
        if (ubufsz)
                memcpy(ubuf_shadow, ubuf, ubufsz);
        buf_pristine = malloc(bufsz ? bufsz : 1);
        memcpy(buf_pristine, buf, bufsz);
        ubuf_pristine = malloc(ubufsz ? ubufsz : 1);
        if (ubufsz)
                memcpy(ubuf_pristine, ubuf, ubufsz);
        snap_size = snapshot_size();
        snap_entry = malloc(snap_size + 1);
        snap_unlock = malloc(snap_size + 1);

        for (stepno = 0; stepno < budget; stepno++) {
                fire_actions(0, stepno);
                activity = 0;
                read_found_empty = 0;
                s = service_call();
                if (s != last) {
                        emit("S %ld %d\n", stepno, s);
                        last = s;
                }
                if (s == CAT_STATUS_ERROR_MUTEX_LOCK) {
                        /* the call did nothing: it does not count as a step, so a faulty run keeps the schedule of the
                         * fault-free one (C16 differential); fail sets are finite - a lock that is refused for ever (it was
                         * never released by an earlier call) ends the run */
                        if (++refused_locks_in_a_row > 4000) {
                                why = "lock-refused-for-ever";
                                stepno++;
                                break;
                        }
                        stepno--;
                        continue;
                }
                refused_locks_in_a_row = 0;
                monitors_after_step();
                if (flags & WF_SAMPLE) {
                        const struct cat_command *pc = cat_get_processed_command(at, CAT_FSM_TYPE_UNSOLICITED);
                        int pi = pc ? (int)(pc - cmds) : -1;
                        int b = (mtx_on && !(flags & WF_SAMPLE_LOCKED)) ? -9 : (int)cat_is_busy(at);
                        int h = (mtx_on && !(flags & WF_SAMPLE_LOCKED)) ? -9 : (int)cat_is_hold(at);
                        if (pi != lp || b != lb || h != lh) {
                                emit("P %ld %d %d %d\n", stepno, pi, b, h);
                                lp = pi; lb = b; lh = h;
                        }
                }
                if (s == CAT_STATUS_OK) {
                        long idle_before = idle;
                        idle = 0;
                        okrun++;
                        if (flags & WF_PROBE) {
                                int ps, pa;
                                /* in_probe 1: withhold input (the probed call saw the input empty); 2: the probed call returned OK
                                 * without ever finding the input empty - bytes that were already available are not "new" */
                                in_probe = read_found_empty ? 1 : 2;
                                activity = 0;
                                ps = service_call();
                                pa = activity;
                                in_probe = 0;
                                monitors_after_step();
                                if (ps != CAT_STATUS_OK || pa) {
                                        emit("K %ld %d %d\n", stepno, ps, pa);
                                        okrun = 0;
                                        last = -99;
                                        continue;
                                }
                                okrun++;
                        }
                        /* a parser parked in HOLD can make no progress without a release: whatever cat_service returns meanwhile
                         * (the statements allow BUSY as well as OK there), it is a stall for the harness, never "quiescent
                         * between lines" */
                        if ((!mtx_on || (flags & WF_SAMPLE_LOCKED)) ? cat_is_hold(at) == CAT_STATUS_HOLD : w_held) {
                                okrun = 0;
                                idle = idle_before;
                                if (++idle >= stall_n) {
                                        idle = 0;
                                        stalls++;
                                        if (!fire_actions(2, stalls) && !step_actions_left()) {
                                                why = "stalled";
                                                stepno++;
                                                break;
                                        }
                                }
                                continue;
                        }
                        /* quiescent between lines: perform the actions bound to this line barrier */
                        if (okrun >= 2 && fire_actions(1, lf_count)) {
                                okrun = 0;
                                continue;
                        }
                        if (okrun >= 2 && inpos >= inlen && !step_actions_left()) {
                                why = "quiescent";
                                stepno++;
                                break;
                        }
                } else {
                        okrun = 0;
                        /* an event being processed is progress too (its formatting steps do no io) */
                        if (activity || cat_get_processed_command(at, CAT_FSM_TYPE_UNSOLICITED) != NULL) {
                                idle = 0;
                        } else if (++idle >= stall_n) {
                                idle = 0;
                                stalls++;
                                if (!fire_actions(2, stalls) && !step_actions_left()) {
                                        why = "stalled";
                                        stepno++;
                                        break;
                                }
                        }
                }
        }
        for (i = 0; i < ncmd; i++)
                for (k = 0; k < wc[i].nvar; k++) {
                        emit("F end0 %d %d ", i, k);
                        hexout(vars[i][k].data, vars[i][k].data_size);
                        emit("\n");
#ifdef WORLD_GUARD
                        {
                                size_t j, sz = vars[i][k].data_size;
                                for (j = 0; j < GUARD; j++)
                                        if (wc[i].var[k].block[j] != GUARD_BYTE || wc[i].var[k].block[GUARD + sz + j] != GUARD_BYTE) {
                                                violation("variable-guard-damaged");
                                                break;
                                        }
                        }
#endif
                }
        if ((flags & WF_C01MON) && strcmp(why, "quiescent") == 0 && mon_results_done != mon_lines_terminated)
                violation("c01-result-code-count");
        if ((flags & WF_C01MON) && strcmp(why, "quiescent") != 0)
                violation("c01-no-quiescence");
        /* half isolation (C03): without any event the unsolicited region is never touched, without any input byte the
         * command region is never touched */
        {
                size_t half = bufsz >> 1;
                if (n_trig_calls == 0 && !early_isolation_reported) {
                        if (shared ? memcmp(buf + half, buf_pristine + half, bufsz - half) != 0
                                   : (ubufsz && memcmp(ubuf, ubuf_pristine, ubufsz) != 0))
                                violation("unsolicited-region-touched-without-event");
                }
                if (n_reads == 0 && n_u_hold == 0 && !early_isolation_reported) {
                        if (memcmp(buf, buf_pristine, shared ? half : bufsz) != 0)
                                violation("command-region-touched-without-input");
                }
        }
        emit("Q %ld %s %ld %ld %d %d %zu %ld\nEND\n", stepno, why, refused_r, refused_w,
             mtx_on ? -9 : (int)cat_is_busy(at), mtx_on ? -9 : (int)cat_is_hold(at), inpos, refused_r_midline);
        if (out)
                fflush(out);
}

/* ---------- text protocol ---------- */
#ifndef WORLD_NO_MAIN

static size_t unhex(const char *s, uint8_t **outp)
{
        size_t n, i;
        uint8_t *p;
        if (strcmp(s, "-") == 0 || strcmp(s, "~") == 0) {
                *outp = calloc(1, 1);
                return 0;
        }
        n = strlen(s) / 2;
        p = malloc(n + 1);
        for (i = 0; i < n; i++) {
                unsigned v = 0;
                sscanf(s + 2 * i, "%2x", &v);
                p[i] = (uint8_t)v;
        }
        p[n] = 0;
        *outp = p;
        return n;
}

static char *next_tok(char **p)
{
        char *s = *p, *e;
        while (*s == ' ')
                s++;
        if (*s == 0 || *s == '\n')
                return NULL;
        e = s;
        while (*e && *e != ' ' && *e != '\n')
                e++;
        if (*e) {
                *e = 0;
                e++;
        }
        *p = e;
        return s;
}

static long tok_long(char **p)
{
        char *t = next_tok(p);
        return t ? strtol(t, NULL, 10) : 0;
}

int main(void)
{
        static char line[1 << 21];
        out = stdout;
        setvbuf(stdout, NULL, _IOFBF, 1 << 20);
        w_reset();
        while (fgets(line, sizeof line, stdin)) {
                char *p = line, *op = next_tok(&p);
                if (op == NULL)
                        continue;
                if (!strcmp(op, "BUF")) {
                        long sh = tok_long(&p), b = tok_long(&p), u = tok_long(&p);
                        w_buf((int)sh, (size_t)b, (size_t)u);
                } else if (!strcmp(op, "GROUP")) {
                        char *nm = next_tok(&p);
                        long dis = tok_long(&p);
                        uint8_t *b;
                        size_t n = unhex(nm, &b);
                        w_group(b, n, strcmp(nm, "~") != 0, (int)dis);
                        free(b);
                } else if (!strcmp(op, "GALIAS")) {
                        char *nm = next_tok(&p);
                        long dis = tok_long(&p), src = tok_long(&p);
                        uint8_t *b;
                        size_t n = unhex(nm, &b);
                        w_group_alias(b, n, strcmp(nm, "~") != 0, (int)dis, (int)src);
                        free(b);
                } else if (!strcmp(op, "CMD")) {
                        char *nm = next_tok(&p), *ds = next_tok(&p);
                        long f1 = tok_long(&p), f2 = tok_long(&p), f3 = tok_long(&p), f4 = tok_long(&p), hm = tok_long(&p);
                        uint8_t *b1, *b2;
                        size_t n1 = unhex(nm, &b1), n2 = unhex(ds, &b2);
                        w_cmd(b1, n1, b2, n2, strcmp(ds, "~") != 0, (int)f1, (int)f2, (int)f3, (int)f4, (int)hm);
                        free(b1); free(b2);
                } else if (!strcmp(op, "VAR")) {
                        char *nm = next_tok(&p);
                        long t = tok_long(&p), sz = tok_long(&p), acc = tok_long(&p);
                        char *in = next_tok(&p);
                        long rcb = tok_long(&p), wcb = tok_long(&p), rf = tok_long(&p), wf = tok_long(&p);
                        uint8_t *b1, *b2;
                        size_t n1 = unhex(nm, &b1), n2 = unhex(in, &b2);
                        w_var(b1, n1, strcmp(nm, "~") != 0, (int)t, (size_t)sz, (int)acc, b2, n2, (int)rcb, (int)wcb, (int)rf, (int)wf);
                        free(b1); free(b2);
                } else if (!strcmp(op, "SCRIPT")) {
                        long fsm = tok_long(&p), kind = tok_long(&p), n = tok_long(&p), i;
                        for (i = 0; i < n; i++) {
                                long c = tok_long(&p), e = tok_long(&p);
                                char *tag = next_tok(&p);
                                long act = tok_long(&p), a1 = tok_long(&p), a2 = tok_long(&p);
                                char *a3 = next_tok(&p);
                                uint8_t *b1, *b2;
                                size_t n1, n2;
                                if (tag == NULL || a3 == NULL)
                                        break;
                                n1 = unhex(tag, &b1);
                                n2 = unhex(a3, &b2);
                                w_script_step((int)fsm, (int)kind, (int)c, (int)e, b1, n1, (int)act, (int)a1, (int)a2, b2, n2);
                                free(b1); free(b2);
                        }
                } else if (!strcmp(op, "INPUT")) {
                        char *h = next_tok(&p);
                        uint8_t *b;
                        size_t n = unhex(h ? h : "-", &b);
                        w_input(b, n);
                        free(b);
                } else if (!strcmp(op, "RSCHED") || !strcmp(op, "WSCHED")) {
                        static int arr[MAXSCHED];
                        int n = 0;
                        char *t;
                        while (n < MAXSCHED && (t = next_tok(&p)) != NULL)
                                arr[n++] = atoi(t);
                        w_sched(op[0] == 'R' ? 0 : 1, arr, n);
                } else if (!strcmp(op, "ACTION")) {
                        long wk = tok_long(&p), when = tok_long(&p), kind = tok_long(&p), a1 = tok_long(&p), a2 = tok_long(&p);
                        char *a3 = next_tok(&p);
                        uint8_t *b;
                        size_t n = unhex(a3 ? a3 : "~", &b);
                        w_action((int)wk, when, (int)kind, (int)a1, (int)a2, b, n);
                        free(b);
                } else if (!strcmp(op, "MUTEX")) {
                        int lf[MAXFAIL], uf[MAXFAIL], nlf = 0, nuf = 0, mode = 0;
                        char *t;
                        while ((t = next_tok(&p)) != NULL) {
                                if (!strcmp(t, "|")) {
                                        mode = 1;
                                        continue;
                                }
                                if (mode == 0 && nlf < MAXFAIL) lf[nlf++] = atoi(t);
                                if (mode == 1 && nuf < MAXFAIL) uf[nuf++] = atoi(t);
                        }
                        w_mutex(lf, nlf, uf, nuf);
                } else if (!strcmp(op, "FLAGS")) {
                        w_flags((int)tok_long(&p));
                } else if (!strcmp(op, "RUN")) {
                        long budget = tok_long(&p), stall = tok_long(&p);
                        w_run(budget > 0 ? budget : 200000, stall > 0 ? stall : 1000000);
                        w_reset();
                } else if (!strcmp(op, "PING")) {
                        printf("PONG %zu %zu\nEND\n", shim_object_size(), shim_queue_capacity());
                        fflush(stdout);
                }
        }
        return 0;
}
#endif
