/*
 * libFuzzer target for C12 (behaviour independent of io readiness scheduling).
 * The case is decoded twice from the same bytes: once with the eager schedule (io always ready), once with the decoded
 * read-availability / write-refusal schedule.  No events, no HOLD.  Oracle inside the target: identical output byte
 * stream, identical handler / variable-callback sequence (with arguments) and identical final variables (compared through
 * running hashes kept by the world), and a refused byte must be re-offered unchanged.
 */
#define WORLD_NO_MAIN
#include "catworld.c"
#include <unistd.h>
#include "fuzz_decode.h"
#include "fuzz_common.h"

int LLVMFuzzerTestOneInput(const uint8_t *data, size_t size)
{
        struct dp d = { data, size };
        uint64_t o0, c0, v0, o1, c1, v1;
        long w0, refusals;
        int ncmd_;

        w_reset();
        w_set_output(NULL);
        total_execs++;
        ncmd_ = decode_case(&d, 0, 0, 1, 1);
        w_flags(0);
        w_run(400000, 8 * ncmd_ + 64);
        o0 = w_hash(0); c0 = w_hash(1); v0 = w_hash(2); w0 = w_stat(1);

        w_reset();
        w_set_output(NULL);
        d.p = data; d.n = size;
        ncmd_ = decode_case(&d, 0, 0, 0, 1);
        w_flags(0);
        w_run(400000, 8 * ncmd_ + 64);
        o1 = w_hash(0); c1 = w_hash(1); v1 = w_hash(2);
        refusals = refused_r + refused_w;
        if (refusals > 0 && w_stat(0) > 0)
                note_nontrivial(data, size);
        if (o0 != o1 || c0 != c1 || v0 != v1 || w0 != w_stat(1)) {
                fprintf(stderr, "C12 ORACLE VIOLATION: eager vs scheduled run differ (output %d callbacks %d variables %d bytes %ld/%ld)\n",
                        o0 != o1, c0 != c1, v0 != v1, w0, w_stat(1));
                dump_stats();
                __builtin_trap();
        }
        if (w_violations() && strstr(w_violation_text(), "refused-byte")) {
                fprintf(stderr, "C12 ORACLE VIOLATION: %s\n", w_violation_text());
                dump_stats();
                __builtin_trap();
        }
        return 0;
}
