/*
 * libFuzzer target for C03 (no out-of-bounds access / UB; buffer halves stay separate).
 *
 * One entry function; the world is rebuilt for every input (nothing leaks between iterations).  The bytes are decoded
 * into a complete Spec: structure is taken from the END of the data (so mutations of the input stream do not
 * reshuffle the descriptor), the remaining FRONT bytes are the input stream of the parser (all 256 values).
 * Oracle inside the target: ASan/UBSan (exact-size heap blocks for every buffer and variable, handlers touch the whole
 * capacity they are told about) + the world's half-isolation and handler-capacity invariants.
 *
 * Compiled once per ring capacity (-DCAT_UNSOLICITED_CMD_BUFFER_SIZE=N).
 */
#define WORLD_NO_MAIN
#include "catworld.c"

#include <unistd.h>

#include "fuzz_decode.h"

#include "fuzz_common.h"

int LLVMFuzzerTestOneInput(const uint8_t *data, size_t size)
{
        struct dp d = { data, size };
        int ncmd_;

        w_reset();
        w_set_output(NULL);
        total_execs++;
        ncmd_ = decode_case(&d, 1, 1, 0, 0);
        w_flags(0);
        w_run(30000, 8 * ncmd_ + 64);

        if (w_stat(0) > 0 || (w_stat(2) > 0 && w_stat(1) > 0))
                note_nontrivial(data, size);
        if (w_violations()) {
                const char *t = w_violation_text();
                if (strstr(t, "region-touched") || strstr(t, "handler-capacity") || strstr(t, "guard")) {
                        fprintf(stderr, "C03 ORACLE VIOLATION: %s\n", t);
                        dump_stats();
                        __builtin_trap();
                }
        }
        return 0;
}
