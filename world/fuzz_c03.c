/*
 * libFuzzer target for C03 (no out-of-bounds access / UB; buffer halves stay separate).
 *
 * One entry function; the world is rebuilt for every input (nothing leaks between iterations).  The bytes are decoded
 * into a complete Spec: structure is taken from the END of the data (so mutations of the input stream do not
 * reshuffle the descriptor), the remaining FRONT bytes are the input stream of the parser (all 256 values).
 * Oracle inside the target: ASan/UBSan (exact-size heap blocks for every buffer and variable, handlers touch the whole
 * capacity they are told about) + the world's half-isolation and handler-capacity invariants.
 *
 * Compiled once per ring capacity (-DCAT_UNSOLICITED_CMD_BUFFER_SIZE=N).
 */
#define WORLD_NO_MAIN
#include "catworld.c"

#include <unistd.h>

struct dp { const uint8_t *p; size_t n; };

static unsigned take(struct dp *d)
{
        if (d->n == 0)
                return 0;
        d->n--;
        return d->p[d->n];
}

static unsigned below(struct dp *d, unsigned n) { return n <= 1 ? 0 : take(d) % n; }

static const char *STEMS[] = { "+T", "+TA", "+SET", "Z", "+", "D", "+CM", "#X", "E", "+test", "az", "&F", "", "+VERYLONGCOMMANDNAME_0123456789" };
static const char *TAGS[] = { "tag", "", "x", "Hello, world", "0123456789012345678901234567890123456789", "\r\n", "#e" };
static const int CODES[] = { -1, 0, 1, 2, 3, 4, 5, 6, 7, 8, 100, -100 };
static const size_t NUMSZ[] = { 1, 2, 4, 1, 2, 4, 3, 8 };

/* non-trivial input hashes (for the evidence file) */
static uint64_t *seen;
static size_t seen_cap = 1u << 21, seen_n;
static unsigned long long total_execs, nontrivial_execs;
static char stats_path[512];

static void dump_stats(void)
{
        FILE *f;
        size_t i;
        if (!stats_path[0])
                return;
        f = fopen(stats_path, "wb");
        if (!f)
                return;
        fprintf(f, "execs %llu nontrivial %llu distinct %zu\n", total_execs, nontrivial_execs, seen_n);
        for (i = 0; i < seen_cap; i++)
                if (seen && seen[i])
                        fwrite(&seen[i], 8, 1, f);
        fclose(f);
}

static void note_nontrivial(const uint8_t *data, size_t size)
{
        uint64_t h = 1469598103934665603ull;
        size_t i, k;
        for (i = 0; i < size; i++)
                h = (h ^ data[i]) * 1099511628211ull;
        if (h == 0)
                h = 1;
        if (!seen)
                seen = calloc(seen_cap, 8);
        nontrivial_execs++;
        if (seen_n * 2 > seen_cap)
                return;
        k = (size_t)(h & (seen_cap - 1));
        while (seen[k] && seen[k] != h)
                k = (k + 1) & (seen_cap - 1);
        if (!seen[k]) {
                seen[k] = h;
                seen_n++;
        }
}

int LLVMFuzzerInitialize(int *argc, char ***argv)
{
        const char *p = getenv("FUZZ_STATS");
        (void)argc;
        (void)argv;
        if (p) {
                snprintf(stats_path, sizeof stats_path, "%s", p);
                atexit(dump_stats);
        }
        return 0;
}

int LLVMFuzzerTestOneInput(const uint8_t *data, size_t size)
{
        struct dp d = { data, size };
        int is_shared, ncmd_, ngrp_, i, k, j, n;
        size_t cc, uc;
        char name[64];

        w_reset();
        w_set_output(NULL);
        total_execs++;

        is_shared = below(&d, 2);
        cc = 6 + below(&d, 43);
        uc = below(&d, 49);
        if (is_shared)
                w_buf(1, 2 * cc + below(&d, 2), 0);
        else
                w_buf(0, cc, uc);
        ncmd_ = 1 + below(&d, 12);
        if (below(&d, 8) == 0)
                ncmd_ = (int)(4 * cc) - (int)below(&d, 5);   /* table that fills the packed match-state array (almost) exactly */
        ngrp_ = 1 + below(&d, 2);
        for (i = 0; i < ncmd_; i++) {
                int implicit, hm, nv, has_desc;
                if (i == 0 || (ngrp_ == 2 && i == ncmd_ / 2))
                        w_group((const uint8_t *)"g", 1, below(&d, 2), below(&d, 8) == 0);
                snprintf(name, sizeof name, "%s", STEMS[below(&d, sizeof STEMS / sizeof STEMS[0])]);
                n = below(&d, 3);
                for (k = 0; k < n && strlen(name) < 60; k++) {
                        size_t l = strlen(name);
                        name[l] = (char)("ABTZaz019+_?!"[below(&d, 13)]);
                        name[l + 1] = 0;
                }
                implicit = below(&d, 10) == 0;
                hm = implicit ? (int)below(&d, 2) : (int)below(&d, 16);
                has_desc = below(&d, 4) == 0;
                w_cmd((const uint8_t *)name, strlen(name), (const uint8_t *)"description text", has_desc ? 1 + below(&d, 16) : 0, has_desc,
                      below(&d, 6) == 0, below(&d, 10) == 0, below(&d, 12) == 0, implicit, hm);
                nv = below(&d, 5);
                for (k = 0; k < nv; k++) {
                        int type = below(&d, 5);
                        size_t sz = type < 3 ? NUMSZ[below(&d, 8)] : 1 + below(&d, 64);
                        uint8_t init[8];
                        for (j = 0; j < 8; j++)
                                init[j] = (uint8_t)take(&d);
                        w_var((const uint8_t *)"v", 1, below(&d, 2), type, sz, below(&d, 3), init, 8, below(&d, 3) == 0, below(&d, 3) == 0,
                              below(&d, 4) ? 0 : 1 + below(&d, 2), below(&d, 4) ? 0 : 1 + below(&d, 2));
                }
                for (k = 0; k < 6; k++) {
                        int fsm = k / 4 ? 1 : 0, kind = k < 4 ? k : (k == 4 ? 1 : 3);
                        int ns;
                        if (!(hm & (1 << kind)))
                                continue;
                        ns = below(&d, 5);
                        for (j = 0; j < ns; j++) {
                                int code = CODES[below(&d, sizeof CODES / sizeof CODES[0])];
                                const char *tag = TAGS[below(&d, sizeof TAGS / sizeof TAGS[0])];
                                int act = below(&d, 6), a1 = 0, a2 = 0;
                                uint8_t pk[4] = { 0 };
                                if (act == 1) { act = WA_TRIG; a1 = below(&d, ncmd_); a2 = below(&d, 4); }
                                else if (act == 2) { act = WA_HOLDEXIT; a1 = below(&d, 2); }
                                else if (act == 3) { act = WA_POKE; a1 = i; a2 = below(&d, 4); pk[0] = (uint8_t)take(&d); pk[1] = (uint8_t)take(&d); }
                                else act = 0;
                                w_script_step(fsm, kind, code, below(&d, 3), (const uint8_t *)tag, strlen(tag), act, a1, a2, pk, 2);
                        }
                }
        }
        n = below(&d, 9);
        {
                long step = 0;
                for (i = 0; i < n; i++) {
                        int kind = below(&d, 8);
                        step += below(&d, 64);
                        if (kind <= 3)
                                w_action(0, step, WA_TRIG, below(&d, ncmd_), below(&d, 4), NULL, 0);
                        else if (kind == 4)
                                w_action(0, step, WA_HOLDEXIT, below(&d, 2), 0, NULL, 0);
                        else if (kind == 5)
                                w_action(0, step, WA_ISBUFFERED, below(&d, ncmd_), (int)below(&d, 3) * 2 - 1, NULL, 0);
                        else if (kind == 6)
                                w_action(0, step, WA_SETDIS, below(&d, ncmd_), below(&d, 2), NULL, 0);
                        else
                                w_action(0, step, WA_ISFULL, 0, 0, NULL, 0);
                }
        }
        for (i = 1; i <= 3; i++)
                w_action(2, i, WA_HOLDEXIT, i & 1, 0, NULL, 0);
        {
                int arr[8];
                n = below(&d, 9);
                for (i = 0; i < n; i++)
                        arr[i] = below(&d, 6);
                w_sched(0, arr, n);
                n = below(&d, 9);
                for (i = 0; i < n; i++)
                        arr[i] = below(&d, 6);
                w_sched(1, arr, n);
        }
        if (d.n > 4096)
                d.n = 4096;
        w_input(d.p, d.n);
        w_flags(0);
        w_run(30000, 8 * ncmd_ + 64);

        if (w_stat(0) > 0 || (w_stat(2) > 0 && w_stat(1) > 0))
                note_nontrivial(data, size);
        if (w_violations()) {
                const char *t = w_violation_text();
                if (strstr(t, "region-touched") || strstr(t, "handler-capacity") || strstr(t, "guard")) {
                        fprintf(stderr, "C03 ORACLE VIOLATION: %s\n", t);
                        dump_stats();
                        __builtin_trap();
                }
        }
        return 0;
}
