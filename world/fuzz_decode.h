/* fuzz_decode.h - structured decode of a complete case from fuzzer bytes (shared by the libFuzzer targets).
 * Structure is taken from the END of the data, the remaining FRONT bytes are the parser's input stream.
 * allow_events: triggers (actions and handler side actions); allow_hold: HOLD / HOLD_EXIT return codes and cat_hold_exit;
 * eager: decode the io schedules but do not apply them (same bytes consumed, so two runs see the same case). */
#ifndef FUZZ_DECODE_H
#define FUZZ_DECODE_H

struct dp { const uint8_t *p; size_t n; };

static unsigned take(struct dp *d)
{
        if (d->n == 0)
                return 0;
        d->n--;
        return d->p[d->n];
}

static unsigned below(struct dp *d, unsigned n) { return n <= 1 ? 0 : take(d) % n; }

static const char *STEMS[] = { "+T", "+TA", "+SET", "Z", "+", "D", "+CM", "#X", "E", "+test", "az", "&F", "", "+VERYLONGCOMMANDNAME_0123456789" };
static const char *TAGS[] = { "tag", "", "x", "Hello, world", "0123456789012345678901234567890123456789", "\r\n", "#e" };
static const char *TAGS_PLAIN[] = { "tag", "t2", "x", "Hello, world", "0123456789012345678901234567890123456789", "y=1", "#e" };
static const int CODES[] = { -1, 0, 1, 2, 3, 4, 5, 6, 7, 8, 100, -100 };
static const int CODES_NOHOLD[] = { -1, 0, 1, 2, 3, 3, 0, 1, 7, 8, 100, -100 };
static const size_t NUMSZ[] = { 1, 2, 4, 1, 2, 4, 3, 8 };

static int decode_case(struct dp *dd, int allow_events, int allow_hold, int eager, int plain_tags)
{
        struct dp d = *dd;
        int is_shared, ncmd_, ngrp_, i, k, j, n;
        size_t cc, uc;
        char name[64];

        is_shared = below(&d, 2);
        cc = 6 + below(&d, 43);
        uc = below(&d, 49);
        if (is_shared)
                w_buf(1, 2 * cc + below(&d, 2), 0);
        else
                w_buf(0, cc, uc);
        ncmd_ = 1 + below(&d, 12);
        if (below(&d, 8) == 0)
                ncmd_ = (int)(4 * cc) - (int)below(&d, 5);   /* table that fills the packed match-state array (almost) exactly */
        ngrp_ = 1 + below(&d, 2);
        for (i = 0; i < ncmd_; i++) {
                int implicit, hm, nv, has_desc;
                if (i == 0 || (ngrp_ == 2 && i == ncmd_ / 2))
                        w_group((const uint8_t *)"g", 1, below(&d, 2), below(&d, 8) == 0);
                snprintf(name, sizeof name, "%s", STEMS[below(&d, sizeof STEMS / sizeof STEMS[0])]);
                n = below(&d, 3);
                for (k = 0; k < n && strlen(name) < 60; k++) {
                        size_t l = strlen(name);
                        name[l] = (char)("ABTZaz019+_?!"[below(&d, 13)]);
                        name[l + 1] = 0;
                }
                implicit = below(&d, 10) == 0;
                hm = implicit ? (int)below(&d, 2) : (int)below(&d, 16);
                has_desc = below(&d, 4) == 0;
                w_cmd((const uint8_t *)name, strlen(name), (const uint8_t *)"description text", has_desc ? 1 + below(&d, 16) : 0, has_desc,
                      below(&d, 6) == 0, below(&d, 10) == 0, below(&d, 12) == 0, implicit, hm);
                nv = below(&d, 5);
                for (k = 0; k < nv; k++) {
                        int type = below(&d, 5);
                        size_t sz = type < 3 ? NUMSZ[below(&d, 8)] : 1 + below(&d, 64);
                        uint8_t init[8];
                        for (j = 0; j < 8; j++)
                                init[j] = (uint8_t)take(&d);
                        w_var((const uint8_t *)"v", 1, below(&d, 2), type, sz, below(&d, 3), init, 8, below(&d, 3) == 0, below(&d, 3) == 0,
                              below(&d, 4) ? 0 : 1 + below(&d, 2), below(&d, 4) ? 0 : 1 + below(&d, 2));
                }
                for (k = 0; k < 6; k++) {
                        int fsm = k / 4 ? 1 : 0, kind = k < 4 ? k : (k == 4 ? 1 : 3);
                        int ns;
                        if (!(hm & (1 << kind)))
                                continue;
                        ns = below(&d, 5);
                        for (j = 0; j < ns; j++) {
                                int code = allow_hold ? CODES[below(&d, sizeof CODES / sizeof CODES[0])] : CODES_NOHOLD[below(&d, sizeof CODES_NOHOLD / sizeof CODES_NOHOLD[0])];
                                const char *tag = plain_tags ? TAGS_PLAIN[below(&d, sizeof TAGS_PLAIN / sizeof TAGS_PLAIN[0])] : TAGS[below(&d, sizeof TAGS / sizeof TAGS[0])];
                                int act = below(&d, 6), a1 = 0, a2 = 0;
                                uint8_t pk[4] = { 0 };
                                if (act == 1) { act = WA_TRIG; a1 = below(&d, ncmd_); a2 = below(&d, 4); if (!allow_events) act = 0; }
                                else if (act == 2) { act = WA_HOLDEXIT; a1 = below(&d, 2); if (!allow_hold) act = 0; }
                                else if (act == 3) { act = WA_POKE; a1 = i; a2 = below(&d, 4); pk[0] = (uint8_t)take(&d); pk[1] = (uint8_t)take(&d); }
                                else act = 0;
                                w_script_step(fsm, kind, code, below(&d, 3), (const uint8_t *)tag, strlen(tag), act, a1, a2, pk, 2);
                        }
                }
        }
        n = below(&d, 9);
        {
                long step = 0;
                for (i = 0; i < n; i++) {
                        int kind = below(&d, 8);
                        step += below(&d, 64);
                        if (kind <= 3) {
                                int c_ = below(&d, ncmd_), t_ = below(&d, 4);
                                if (allow_events)
                                        w_action(0, step, WA_TRIG, c_, t_, NULL, 0);
                        } else if (kind == 4) {
                                int st_ = below(&d, 2);
                                if (allow_hold)
                                        w_action(0, step, WA_HOLDEXIT, st_, 0, NULL, 0);
                        }
                        else if (kind == 5)
                                w_action(0, step, WA_ISBUFFERED, below(&d, ncmd_), (int)below(&d, 3) * 2 - 1, NULL, 0);
                        else if (kind == 6) {
                                int c_ = below(&d, ncmd_), v_ = below(&d, 2);
                                if (allow_events)     /* flag flips at arbitrary steps only in the memory-safety target */
                                        w_action(0, step, WA_SETDIS, c_, v_, NULL, 0);
                        }
                        else
                                w_action(0, step, WA_ISFULL, 0, 0, NULL, 0);
                }
        }
        if (allow_hold)
                for (i = 1; i <= 3; i++)
                        w_action(2, i, WA_HOLDEXIT, i & 1, 0, NULL, 0);
        {
                int arr[8];
                n = below(&d, 9);
                for (i = 0; i < n; i++)
                        arr[i] = below(&d, 6);
                if (!eager)
                        w_sched(0, arr, n);
                n = below(&d, 9);
                for (i = 0; i < n; i++)
                        arr[i] = below(&d, 6);
                if (!eager)
                        w_sched(1, arr, n);
        }
        /* last draw (so that older corpus files keep their meaning): the first group's command array registered a second
         * time through a further group; 7 and not 0 so that an exhausted structure tail means "no" */
        if (below(&d, 8) == 7)
                w_group_alias((const uint8_t *)"ga", 2, 1, below(&d, 2), 0);
        if (d.n > 4096)
                d.n = 4096;
        w_input(d.p, d.n);
        *dd = d;
        return ncmd_;
}
#endif
