/*
 * libFuzzer target for C01 (exactly one result code per non-blank line, in order, no read-ahead).
 * Same structured decode as fuzz_c03.c but without events and without HOLD (the statement's quantifier: handlers that
 * eventually return a terminal code); tags contain no CR/LF and never equal OK / ERROR.  The oracle is the world's
 * streaming C01 monitor (WF_C01MON): result codes counted against terminated non-blank lines at every output LF, no
 * input byte handed out while an earlier line's result code is incomplete, counts equal at quiescence, quiescence reached.
 */
#define WORLD_NO_MAIN
#include "catworld.c"
#include <unistd.h>
#include "fuzz_decode.h"
#include "fuzz_common.h"

int LLVMFuzzerTestOneInput(const uint8_t *data, size_t size)
{
        struct dp d = { data, size };
        int ncmd_;

        w_reset();
        w_set_output(NULL);
        total_execs++;
        ncmd_ = decode_case(&d, 0, 0, 0, 1);
        w_flags(WF_C01MON);
        w_run(400000, 8 * ncmd_ + 64);
        if (mon_lines_terminated >= 2)
                note_nontrivial(data, size);
        if (w_violations()) {
                const char *t = w_violation_text();
                if (strstr(t, "c01-")) {
                        fprintf(stderr, "C01 ORACLE VIOLATION: %s\n", t);
                        dump_stats();
                        __builtin_trap();
                }
        }
        return 0;
}
