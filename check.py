#!/usr/bin/env python3-vt
"""Driver: ./check.py <ID> --tier quick|thorough [--replay <file>]   (DESIGN.md 3.6)

1. rebuild the world executables from the current tree of ${VERIF_REPO:-/repo} (content-hash keyed),
2. replay tier: every committed replay case of the property through the plain oracle path,
3. search: enumerations, Hypothesis workers with seeds derived from VERIF_SEED, optional fuzz campaigns,
4. on failure: shrink, write the replay file, re-run it 3x, match against KNOWN_FINDINGS.txt,
5. write evidence/<ID>.json.

Exit 0: the property held on everything explored (KNOWN-FINDING lines possible).
Exit 1: "VIOLATION property=<id> replay=<path>".
Exit 2: check broken (build failure, vacuous run, non-reproducible failure) - never a pass."""
import argparse
import glob
import hashlib
import importlib
import json
import multiprocessing as mp
import os
import sys
import time
import traceback

VERIF = os.path.dirname(os.path.abspath(__file__))
sys.path.insert(0, VERIF)

from pbt import spec as S  # noqa: E402
from pbt import build  # noqa: E402
from pbt.common import Stats, Result  # noqa: E402
from pbt.draw import Draw  # noqa: E402
from pbt.worldclient import Worlds  # noqa: E402


def load_prop(pid):
    return importlib.import_module("pbt.props." + pid.lower())


def derive_seed(base, pid, worker):
    h = hashlib.sha256(("%d/%s/%d" % (base, pid, worker)).encode()).digest()
    return int.from_bytes(h[:4], "big") or 1


def known_findings():
    known, fixed = [], []
    p = os.path.join(VERIF, "KNOWN_FINDINGS.txt")
    if os.path.exists(p):
        for line in open(p):
            line = line.strip()
            if line.startswith("known:"):
                f = dict(x.split("=", 1) for x in line.split()[1:3] if "=" in x)
                known.append((f.get("property"), f.get("signature"), line))
            elif line.startswith("fixed:"):
                fixed.append(line)
    return known, fixed


# ------------------------------------------------------------------ worker

def run_one(P, case, W, stats):
    try:
        res = P.run(case, W)
    except Exception as e:
        if type(e).__name__ == "Unknown":
            # the reference model says the statements do not define this input (DESIGN section 4): skipped and counted, never judged
            res = Result(skipped=True, labels=["unknown-domain"])
        else:
            res = Result(violation=("harness-exception", traceback.format_exc()[-3000:]))
    stats.note(case, res)
    return res


def worker_main(pid, tier, widx, nworkers, seed, cases, conn):
    """one Hypothesis worker; sends a dict with statistics and the (shrunk) failure, if any"""
    out = dict(worker=widx, failure=None, error=None)
    try:
        from hypothesis import given, settings, strategies as st, seed as hseed, HealthCheck, Phase
        P = load_prop(pid)
        W = Worlds()
        stats = Stats()
        fails = []
        lo, hi = getattr(P, "BLOB", (300, 1500))

        @hseed(seed)
        @settings(max_examples=cases, database=None, deadline=None, derandomize=False, report_multiple_bugs=False,
                  suppress_health_check=[HealthCheck.too_slow, HealthCheck.data_too_large, HealthCheck.large_base_example],
                  phases=[Phase.generate] if getattr(P, "NO_SHRINK", False) else [Phase.generate, Phase.shrink])
        @given(st.binary(min_size=lo, max_size=hi))
        def prop(blob):
            d = Draw(blob)
            case = P.gen(d, tier)
            if case is None:
                stats.skipped += 1
                return
            subcases = P.expand(case, W, tier) if hasattr(P, "expand") else (case,)
            for sub in subcases:
                ctx = W.snapshot()
                res = run_one(P, sub, W, stats)
                if res.violation:
                    fails.append((sub, res.violation, ctx))
                    raise AssertionError(res.violation[0])

        try:
            if cases > 0:
                prop()
        except AssertionError:
            if not fails:
                raise
        except Exception as e:  # hypothesis wraps some failures
            if not fails:
                raise
        if fails:
            case, v, ctx = fails[-1]
            sig0 = v[0]
            mini = getattr(P, "minimise", None)
            if mini is not None:
                try:
                    case = mini(case, W, sig0)
                    r2 = P.run(case, W)
                    if r2.violation:
                        v = r2.violation
                except Exception:
                    pass
            out["failure"] = dict(case=S._enc(case), sig=v[0], text=v[1], prelude=ctx)
        out["stats"] = stats.to_dict()
        W.close()
    except Exception:
        out["error"] = traceback.format_exc()[-4000:]
    conn.send(out)
    conn.close()


def enum_worker(pid, tier, widx, nworkers, conn):
    """enumerated sub-sweeps, sharded round-robin over the workers"""
    out = dict(worker=widx, failure=None, error=None)
    try:
        P = load_prop(pid)
        W = Worlds()
        stats = Stats()
        n = 0
        for name, it in P.enumerations(tier):
            for j, case in enumerate(it):
                if j % nworkers != widx:
                    continue
                n += 1
                ctx = W.snapshot()
                res = run_one(P, case, W, stats)
                stats.extra["enum:" + name] = stats.extra.get("enum:" + name, 0) + 1
                if res.violation and out["failure"] is None:
                    out["failure"] = dict(case=S._enc(case), sig=res.violation[0], text=res.violation[1], prelude=ctx)
                    break
            if out["failure"]:
                break
        out["stats"] = stats.to_dict()
        W.close()
    except Exception:
        out["error"] = traceback.format_exc()[-4000:]
    conn.send(out)
    conn.close()


def spawn(target, argsets):
    procs = []
    for a in argsets:
        pc, cc = mp.Pipe(duplex=False)
        p = mp.Process(target=target, args=a + (cc,))
        p.start()
        cc.close()
        procs.append((p, pc))
    res = []
    for p, pc in procs:
        try:
            res.append(pc.recv())
        except EOFError:
            res.append(dict(error="worker died without a result", failure=None))
        p.join()
    return res


# ------------------------------------------------------------------ main

def merge(acc, st):
    acc["evaluations"] += st["evaluations"]
    acc["skipped"] += st["skipped"]
    acc["world_runs"] += st["world_runs"]
    acc["nontrivial"].update(st["nontrivial"])
    for k, v in st["hist"].items():
        acc["hist"][k] = acc["hist"].get(k, 0) + v
    for k, v in st["samples"].items():
        if k not in acc["samples"] and len(acc["samples"]) < 10:
            acc["samples"][k] = v
    for k, v in st["extra"].items():
        if isinstance(v, (int, float)):
            acc["extra"][k] = acc["extra"].get(k, 0) + v
        else:
            acc["extra"][k] = v


def sample_view(case):
    """samples in the evidence file: the case itself when small, otherwise its essential parts"""
    try:
        txt = json.dumps(case, sort_keys=True)
    except Exception:
        return str(case)[:2000]
    if len(txt) <= 5000:
        return case
    sp = case.get("spec") if isinstance(case, dict) else None
    if isinstance(sp, dict):
        cs = [c for g in sp.get("groups", []) for c in g.get("cmds", [])]
        return dict(truncated=True, input=sp.get("input"), qcap=sp.get("qcap"), shared=sp.get("shared"), bufsz=sp.get("bufsz"), ubufsz=sp.get("ubufsz"),
                    n_commands=len(cs), command_names=[c.get("name") for c in cs[:16]], n_actions=len(sp.get("actions", [])), actions_head=sp.get("actions", [])[:12],
                    rs=sp.get("rs"), ws=sp.get("ws"), flags=sp.get("flags"), other_keys={k: v for k, v in case.items() if k != "spec"},
                    first_command=cs[0] if cs else None)
    return dict(truncated=True, json_prefix=txt[:4000])


def write_replay(pid, failure):
    d = os.path.join(os.environ.get("VERIF_FAIL_DIR", os.path.join(VERIF, "replays")), pid)
    os.makedirs(d, exist_ok=True)
    body = dict(property=pid, signature=failure["sig"], text=failure["text"][:2000], case=failure["case"])
    if failure.get("prelude"):
        # what the same world process had run just before: only needed if the library keeps state across cat_init calls
        body["prelude"] = failure["prelude"]
    txt = json.dumps(body, sort_keys=True, indent=1)
    h = hashlib.sha256(json.dumps(failure["case"], sort_keys=True).encode()).hexdigest()[:12]
    path = os.path.join(d, "fail-%s.json" % h)
    with open(path, "w") as f:
        f.write(txt)
    return path


def replay_file(P, path, W):
    if not path.endswith(".json"):
        rp = getattr(P, "replay_artifact", None)
        if rp is None:
            return Result(violation=("bad-replay", "no artifact replayer for " + path))
        return rp(path)
    body = json.load(open(path))
    case = S._dec(body["case"])
    res = P.run(case, W)
    if not res.violation and body.get("prelude"):
        # not reproducible from a fresh parser alone: replay it after what the failing process had run before (a failure that
        # needs this means the library carries hidden state from one cat_init to the next)
        W2 = Worlds(prelude=body["prelude"])
        try:
            res = P.run(case, W2)
            if res.violation:
                res = Result(violation=(res.violation[0], "[needs the preceding case in the same process: hidden state across cat_init] " + res.violation[1]))
        finally:
            W2.close()
    return res


def main():
    ap = argparse.ArgumentParser()
    ap.add_argument("pid")
    ap.add_argument("--tier", default=os.environ.get("VERIF_TIER", "quick"), choices=["quick", "thorough"])
    ap.add_argument("--replay")
    ap.add_argument("--seed", type=int, default=int(os.environ.get("VERIF_SEED", "20261002")))
    ap.add_argument("--workers", type=int, default=int(os.environ.get("VERIF_WORKERS", str(min(16, os.cpu_count() or 4)))))
    ap.add_argument("--cases", type=int, default=None, help="override the per-worker case count")
    ap.add_argument("--no-evidence", action="store_true")
    ap.add_argument("--no-enum", action="store_true", help="development: skip the enumerated sub-sweeps")
    a = ap.parse_args()
    pid = a.pid.upper()
    t0 = time.time()
    P = load_prop(pid)

    # 1. rebuild from the current tree
    try:
        os.environ["VERIF_BUILD_DIR"] = build.build_dir()
        build.ensure_worlds(P.WORLDS)
        if hasattr(P, "prebuild"):
            P.prebuild(a.tier)
    except Exception as e:
        print("CHECK-BROKEN property=%s build failed: %s" % (pid, e))
        return 2

    W = Worlds()
    if a.replay:
        res = replay_file(P, a.replay, W)
        W.close()
        if res.violation:
            print("replay: %s: %s" % res.violation)
            print("VIOLATION property=%s replay=%s" % (pid, a.replay))
            return 1
        print("replay: property held on %s" % a.replay)
        return 0

    known, fixed = known_findings()
    acc = dict(evaluations=0, skipped=0, world_runs=0, nontrivial=set(), hist={}, samples={}, extra={})
    failures = []
    errors = []
    nt_extra = 0

    # 2. replay tier
    replays = sorted(glob.glob(os.path.join(VERIF, "replays", pid, "*.json")))
    nrep = 0
    for path in replays:
        if os.path.basename(path).startswith("fail-"):
            continue  # fresh failures of earlier runs are not regression cases until renamed/committed
        ctx = W.snapshot()
        res = replay_file(P, path, W)
        nrep += 1
        if res.violation:
            # (a committed regression case that fails only after another case in the same process is written out again with
            # that case as its prelude)
            f = dict(case=json.load(open(path))["case"], sig=res.violation[0], text=res.violation[1])
            if ctx:
                f["prelude"] = ctx
            else:
                f["path"] = path
            failures.append(f)
    acc["extra"]["replay_cases"] = nrep
    W.close()

    # 3. search
    tierconf = P.BUDGET[a.tier]
    nworkers = max(1, a.workers)
    if not failures and hasattr(P, "enumerations") and not a.no_enum:
        for r in spawn(enum_worker, [(pid, a.tier, w, nworkers) for w in range(nworkers)]):
            if r.get("error"):
                errors.append(r["error"])
                continue
            merge(acc, r["stats"])
            if r["failure"]:
                failures.append(r["failure"])
    cases = a.cases if a.cases is not None else tierconf.get("cases", 0)
    seeds = []
    if not failures and cases > 0:
        argsets = []
        for w in range(nworkers):
            sd = derive_seed(a.seed, pid, w)
            seeds.append(sd)
            argsets.append((pid, a.tier, w, nworkers, sd, cases))
        for r in spawn(worker_main, argsets):
            if r.get("error"):
                errors.append(r["error"])
                continue
            merge(acc, r["stats"])
            if r["failure"]:
                failures.append(r["failure"])
    if not failures and hasattr(P, "campaign"):
        try:
            cres = P.campaign(a.tier, a.seed, nworkers)
            for k, v in cres.get("extra", {}).items():
                acc["extra"][k] = v
            acc["evaluations"] += cres.get("evaluations", 0)
            nt_extra += cres.get("nontrivial_extra", 0)
            for f in cres.get("failures", []):
                failures.append(f)
        except Exception:
            errors.append(traceback.format_exc()[-3000:])

    # 4. failures: replay 3x, known findings
    rc = 0
    lines = []
    viol_count = 0
    W = Worlds()
    seen_sigs = set()
    # one report per root-cause signature: keep the smallest failing case of each
    best = {}
    sig_count = {}
    for f in failures:
        sig_count[f["sig"]] = sig_count.get(f["sig"], 0) + 1
    for f in failures:
        k = f["sig"]
        if k not in best or len(json.dumps(f["case"])) < len(json.dumps(best[k]["case"])):
            best[k] = f
    failures = [best[k] for k in sorted(best)]
    for f in failures:
        path = f.get("path")
        if path is None:
            if f.get("artifact"):
                path = f["artifact"]
            else:
                path = write_replay(pid, f)
        tries, need = getattr(P, "REPLAY_TRIES", 3), getattr(P, "REPLAY_NEED", 3)
        ok3 = 0
        for _ in range(tries):
            r = replay_file(P, path, W)
            if r.violation:
                ok3 += 1
            if ok3 >= need:
                break
        if ok3 < need and hasattr(P, "self_evident") and P.self_evident(f["sig"], f["text"]):
            # the failing run's own report is the evidence (a race report naming both accesses); a schedule need not recur on replay
            f["text"] += "\n(not reproduced in %d statistical replays; the report above was produced by the generated run itself)" % tries
        elif ok3 < need and sig_count.get(f["sig"], 0) >= getattr(P, "CORROBORATED", {}).get(f["sig"], 10 ** 9):
            # statistical checks: the same failure was produced independently by several generated cases of this run; that stands in
            # for a replay that depends on thread timing
            f["text"] += "\n(not reproduced in %d statistical replays, but %d independent generated cases of this run failed the same way)" % (tries, sig_count[f["sig"]])
        elif ok3 < need:
            errors.append("failure does not replay (%d/%d, needed %d): %s\n%s" % (ok3, tries, need, path, f["text"][:1000]))
            continue
        sig = f["sig"]
        k = [kl for (kp, ks, kl) in known if kp == pid and ks == sig]
        if k:
            if sig not in seen_sigs:
                lines.append("KNOWN-FINDING: property=%s %s" % (pid, k[0].split(" ", 3)[-1]))
            seen_sigs.add(sig)
            continue
        viol_count += 1
        print("violation: %s: %s" % (sig, f["text"][:3000]))
        lines.append("VIOLATION property=%s replay=%s" % (pid, path))
        rc = 1
    W.close()
    # known findings are reported on every run of the unchanged tree, found again or not
    for (kp, ks, kl) in known:
        if kp == pid and ks not in seen_sigs:
            lines.append("KNOWN-FINDING: property=%s %s" % (pid, kl.split(" ", 3)[-1]))

    # vacuity guard
    nt = len(acc["nontrivial"]) + nt_extra
    # vacuity floor (stated for 16 workers, scaled with the number of workers actually used)
    floor = max(2, P.MIN_NONTRIVIAL.get(a.tier, 2) * nworkers // 16) if a.cases is None else 2
    if errors:
        for e in errors:
            print("CHECK-BROKEN property=%s %s" % (pid, e))
        if rc == 0:
            rc = 2
    elif rc == 0 and nt < floor:
        print("CHECK-BROKEN property=%s vacuous run: only %d distinct non-trivial cases (floor %d)" % (pid, nt, floor))
        rc = 2

    # 5. evidence
    wall = time.time() - t0
    if not a.no_evidence:
        samples = [dict(label=k, case=sample_view(v)) for k, v in list(acc["samples"].items())[:8]]
        if not samples:
            samples = [dict(label="none", case=None)]
        cov = dict(evaluations=acc["evaluations"], distinct_nontrivial=nt, rule=P.RULE, samples=samples,
                   class_histogram=dict(sorted(acc["hist"].items())), skipped_outside_domain=acc["skipped"],
                   world_runs=acc["world_runs"], workers=nworkers, worker_seeds=seeds, cases_per_worker=cases,
                   exhaustive=bool(getattr(P, "EXHAUSTIVE", {}).get(a.tier, False)) if isinstance(getattr(P, "EXHAUSTIVE", None), dict) else False)
        cov.update(acc["extra"])
        ev = dict(property_id=pid, tier=a.tier, seed=a.seed, level=P.LEVEL, coverage=cov, assumptions=list(P.ASSUMPTIONS),
                  wall_s=round(wall, 2), violations=viol_count, repo=build.REPO, build_hash=build.src_hash(),
                  known_findings=[l for l in lines if l.startswith("KNOWN-FINDING")], check_errors=errors[:3])
        os.makedirs(os.path.join(VERIF, "evidence"), exist_ok=True)
        tmp = os.path.join(VERIF, "evidence", pid + ".json.tmp%d" % os.getpid())
        with open(tmp, "w") as f:
            json.dump(ev, f, indent=1, sort_keys=True)
        os.replace(tmp, os.path.join(VERIF, "evidence", pid + ".json"))
    for l in lines:
        print(l)
    print("%s %s: %d cases (%d skipped), %d distinct non-trivial, %d world runs, %.1fs, exit %d" % (
        pid, a.tier, acc["evaluations"], acc["skipped"], nt, acc["world_runs"], wall, rc))
    if acc["hist"]:
        print("classes: " + ", ".join("%s=%d" % kv for kv in sorted(acc["hist"].items())))
    return rc


if __name__ == "__main__":
    sys.exit(main())
