#!/usr/bin/env python3
"""Fill seeded/<id>/meta.json (detected_by, needs) from the matrix outputs of tools/seedrun.py and the agents' notes."""
import glob, json, os, re, sys
det = {}
for f in sorted(glob.glob("/verif/seeded/_matrix/*.txt")):
    for l in open(f):
        p = l.split()
        if len(p) >= 3 and re.match(r"C\d\d-\d+$", p[0]):
            det.setdefault(p[0], {})
            if p[2] == "DETECTED":
                det[p[0]][p[1]] = l.split("violation:", 1)[1].strip()[:160] if "violation:" in l else "detected"
            elif p[1] not in det[p[0]]:
                pass
for d in sorted(glob.glob("/verif/seeded/C*-*")):
    sid = os.path.basename(d)
    mp = os.path.join(d, "meta.json")
    m = json.load(open(mp))
    m["detected_by"] = sorted(det.get(sid, {}))
    m["detection_signatures"] = det.get(sid, {})
    needs = json.load(open("/verif/tools/seed_needs.json"))
    if sid in needs:
        m["needs"] = needs[sid]
    m["round"] = (int(sid.split("-")[1]) + 1) // 2
    notes = os.path.join(d, "agent_notes.md")
    if False:
        txt = open(notes).read()
        k = sid.split("-")[1]
        kk = str((int(k) - 1) % 2 + 1)
        mm = re.search(r"(?is)(what (?:exactly )?is needed|needs? to manifest|trigger|needed for it to manifest)[^\n]*\n(.{40,600}?)(\n\n|\n#)", txt)
        m["needs"] = "see agent_notes.md (change %s of that agent)" % kk
    json.dump(m, open(mp, "w"), indent=1, sort_keys=True)
    print(sid, " ".join(m["detected_by"]) or "-")
