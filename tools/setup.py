#!/usr/bin/env python3-vt
"""setup_cmd: compile every world variant from the files on disk (offline)."""
import os, sys
sys.path.insert(0, os.path.dirname(os.path.dirname(os.path.abspath(__file__))))
from pbt import build
build.ensure_worlds([(q, f) for q in (1, 2, 3, 8) for f in ("plain", "san")])
print("worlds built in", build.build_dir())
