#!/usr/bin/env python3
"""Print the DESIGN.md C.5 table rows (seed | needs | detected by) for the seeds of one round from seeded/<id>/meta.json.
usage: mk_catch_rows.py <round>"""
import glob, json, os, sys
rnd = int(sys.argv[1])
for d in sorted(glob.glob("/verif/seeded/C*-*")):
    m = json.load(open(os.path.join(d, "meta.json")))
    if m.get("round") != rnd:
        continue
    sid = os.path.basename(d)
    own = sid.split("-")[0]
    det = " ".join(("**%s**" % p) if p == own else p for p in m.get("detected_by", []))
    print("| %s | %s | %s |" % (sid, m.get("needs", "").replace("|", "/"), det or "-"))
