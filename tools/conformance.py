#!/usr/bin/env python3-vt
"""Development-only cross-check (DESIGN 3.3 / 7.1): the composed reference Model against the
implementation on random command-only cases: output bytes, callback trace, final variables.
Not a registered check; it exists to make sure the reference pieces describe the code."""
import os, sys, random, time
sys.path.insert(0, os.path.dirname(os.path.dirname(os.path.abspath(__file__))))
from pbt import spec as S, gen, ref, build
from pbt.draw import Draw
from pbt.worldclient import Worlds


def gen_case(d):
    cmds = gen.g_table(d, 1, 8)
    for c in cmds:
        for key, st in c["scripts"].items():
            for x in st:
                if x["code"] == S.HOLD:
                    x["code"] = S.OK
    groups = gen.g_groups(d, cmds)
    shared = d.below(2) == 0
    cc = d.pick([6, 7, 8, 10, 12, 16, 20, 24, 32, 48, 64])
    inp, lines = gen.g_input(d, cmds, 1, 6, valid_bias=d.chance(3, 4), cap=cc)
    s = S.mk_spec(groups=groups, input=inp, shared=shared, bufsz=(2 * cc + d.below(2)) if shared else cc, ubufsz=d.pick([0, 8, 32]),
                  rs=gen.g_sched(d), ws=gen.g_sched(d), flags=S.WF_MONVARS)
    if (len(cmds) + 3) // 4 > S.ccap(s):
        return None
    return s


def check(W, s):
    t = W.run(s, "san")
    if not t.ok:
        return "crash " + str(t.crash)
    if t.reason != "quiescent":
        return "not quiescent: " + t.reason
    m = ref.Model(s)
    lines, tail = ref.split_lines(s["input"])
    out = bytearray(); cbs = []
    try:
        for raw in lines:
            p = m.line(raw)
            out += p.out
            for cb in p.cbs:
                cbs.append(cb)
    except ref.Unknown:
        return None
    if bytes(out) != t.out:
        return "output differs\n exp %r\n got %r" % (bytes(out), t.out)
    got = []
    for k, e in t.events:
        if k == "H":
            if e.kind in "rt":
                got.append(("H", e.fsm, e.ci, e.kind, e.seen, e.after, e.code))
            elif e.kind == "w":
                got.append(("H", e.fsm, e.ci, e.kind, e.seen, e.args, e.code))
            else:
                got.append(("H", e.fsm, e.ci, e.kind, b"", 0, e.code))
        elif k == "V":
            got.append(("V", e.ci, e.vi, e.kind, e.size, e.ret != 0))
    if got != cbs:
        return "callbacks differ\n exp %r\n got %r" % (cbs, got)
    fv = t.final_vars()
    for key, val in m.data.items():
        if bytes(val) != fv[key]:
            return "var %r differs exp %r got %r" % (key, bytes(val), fv[key])
    return None


if __name__ == "__main__":
    n = int(sys.argv[1]) if len(sys.argv) > 1 else 2000
    seed = int(sys.argv[2]) if len(sys.argv) > 2 else 1
    build.ensure_worlds([(1, "san")])
    W = Worlds(); rnd = random.Random(seed); t0 = time.time(); done = 0; stats = {"OK": 0, "ERROR": 0, "handlers": 0}
    for i in range(n):
        blob = bytes(rnd.getrandbits(8) if rnd.random() < 0.8 else 0 for _ in range(rnd.choice([200, 600, 1200])))
        s = gen_case(Draw(blob))
        if s is None:
            continue
        r = check(W, s)
        done += 1
        if r:
            print("MISMATCH case", i); print(r); print(S.to_json(s)); sys.exit(1)
    print("ok", done, "cases", round(time.time() - t0, 1), "s")
