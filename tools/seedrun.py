#!/usr/bin/env python3
"""Run checks against seeded changes on scratch copies of the repository (outside /repo and /verif).
usage: seedrun.py <check-id|all-own> <seed-dir-name ...|all> [--tier quick] [--jobs N]
prints one line per (seed, check): DETECTED / missed, with the time."""
import os, subprocess, sys, shutil, time, glob, json, hashlib
from concurrent.futures import ThreadPoolExecutor

def rm_build(d):
    """remove the world executables built for a scratch copy"""
    shutil.rmtree(os.path.join("/verif/build", hashlib.sha256(os.path.realpath(d).encode()).hexdigest()[:8]), ignore_errors=True)


def prep(seed, tag=""):
    d = "/tmp/mut/%s%s" % (seed, tag)
    shutil.rmtree(d, ignore_errors=True); os.makedirs(d)
    subprocess.check_call("cp -r /repo/src %s/src && cd %s && git init -q . && git apply /verif/seeded/%s/patch.diff" % (d, d, seed), shell=True)
    return d

def run(seed, pid, tier, workers):
    d = prep(seed, "_" + pid)
    t0 = time.time()
    env = dict(os.environ, VERIF_REPO=d, VERIF_WORKERS=str(workers), VERIF_FAIL_DIR=d + "/fails")
    r = subprocess.run(["/verif/check.py", pid, "--tier", tier, "--no-evidence"], capture_output=True, text=True, env=env, cwd="/verif")
    out = r.stdout + r.stderr
    det = r.returncode == 1 and "VIOLATION property=%s" % pid in out
    sig = [l for l in out.splitlines() if l.startswith("violation:")]
    # fresh failure files written by this run are not regression cases
    for l in out.splitlines():
        if l.startswith("VIOLATION") and "/fail-" in l:
            try: os.remove(l.split("replay=")[1].strip())
            except OSError: pass
    rm_build(d)
    shutil.rmtree(d, ignore_errors=True)
    return seed, pid, det, r.returncode, time.time() - t0, (sig[0][:160] if sig else out.strip().splitlines()[-1][:160] if out.strip() else "")

if __name__ == "__main__":
    args = [a for a in sys.argv[1:] if not a.startswith("--")]
    tier = "quick"; jobs = 2
    for i, a in enumerate(sys.argv):
        if a == "--tier": tier = sys.argv[i + 1]; args.remove(tier)
        if a == "--jobs": jobs = int(sys.argv[i + 1]); args.remove(sys.argv[i + 1])
    pid = args[0]; seeds = args[1:]
    if seeds == ["all"] or not seeds:
        seeds = sorted(os.path.basename(p) for p in glob.glob("/verif/seeded/C*"))
    work = []
    for s in seeds:
        if pid == "own":
            work.append((s, s.split("-")[0]))
        elif pid == "matrix":
            for q in range(1, 21):
                work.append((s, "C%02d" % q))
        else:
            work.append((s, pid))
    with ThreadPoolExecutor(max_workers=jobs) as ex:
        for seed, p, det, rc, dt, msg in ex.map(lambda w: run(w[0], w[1], tier, max(1, 16 // jobs)), work):
            print("%-8s %-4s %-8s rc=%d %5.1fs  %s" % (seed, p, "DETECTED" if det else "missed", rc, dt, msg), flush=True)
