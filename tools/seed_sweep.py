#!/usr/bin/env python3
"""False-alarm hygiene (DESIGN 7.2): run every check on the unchanged tree over many VERIF_SEED values; all must exit 0.
usage: seed_sweep.py [--tier quick] [--seeds N] [--only C01,C02] [--jobs N]"""
import os, subprocess, sys, time, json
from concurrent.futures import ThreadPoolExecutor
args = sys.argv[1:]
tier, nseeds, only, jobs = "quick", 20, None, 2
for i, a in enumerate(args):
    if a == "--tier": tier = args[i + 1]
    if a == "--seeds": nseeds = int(args[i + 1])
    if a == "--only": only = args[i + 1].split(",")
    if a == "--jobs": jobs = int(args[i + 1])
ids = only or ["C%02d" % i for i in range(1, 21)]
work = [(p, s) for p in ids for s in range(1, nseeds + 1)]
def run(w):
    p, s = w
    env = dict(os.environ, VERIF_SEED=str(1000 + 77 * s), VERIF_WORKERS=str(max(1, 16 // jobs)))
    t0 = time.time()
    r = subprocess.run(["/verif/check.py", p, "--tier", tier, "--no-evidence"], capture_output=True, text=True, env=env, cwd="/verif")
    last = (r.stdout.strip().splitlines() or [""])[-2:]
    return p, s, r.returncode, round(time.time() - t0, 1), (r.stdout + r.stderr)[-600:] if r.returncode else ""
bad = 0
res = {}
with ThreadPoolExecutor(max_workers=jobs) as ex:
    for p, s, rc, dt, tail in ex.map(run, work):
        res.setdefault(p, []).append((s, rc, dt))
        if rc != 0:
            bad += 1
            print("ALARM %s seed %d rc=%d\n%s" % (p, s, rc, tail), flush=True)
for p in ids:
    rs = res.get(p, [])
    print("%s: %d runs, %d non-zero, time %.1f..%.1fs" % (p, len(rs), sum(1 for x in rs if x[1]), min(x[2] for x in rs), max(x[2] for x in rs)), flush=True)
print("TOTAL alarms:", bad)
