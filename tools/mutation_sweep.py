#!/usr/bin/env python3
"""Mutation sweep (DESIGN 7.2): apply each probe of mutants/probes.py to a scratch copy of the repository (outside /repo and
/verif), keep it only if it compiles with the project's flags and the 30 tests still pass (Debug build, asserts live), then run
the targeted property's check (and optionally every other check) against it.

usage: mutation_sweep.py [--only PROP|ID] [--cross] [--tier quick] [--jobs N] [--out FILE]"""
import json, os, re, shutil, subprocess, sys, time, hashlib
from concurrent.futures import ThreadPoolExecutor
sys.path.insert(0, os.path.join(os.path.dirname(os.path.abspath(__file__)), "..", "mutants"))
import probes  # noqa: E402

ROOT = "/tmp/mut"
TESTS = os.path.join(ROOT, "tests_build")


def rm_build(d):
    """remove the world executables built for a scratch copy"""
    shutil.rmtree(os.path.join("/verif/build", hashlib.sha256(os.path.realpath(d).encode()).hexdigest()[:8]), ignore_errors=True)


def sh(cmd, cwd=None, env=None, timeout=3600):
    r = subprocess.run(cmd, shell=True, cwd=cwd, capture_output=True, text=True, env=env, timeout=timeout)
    return r.returncode, r.stdout + r.stderr


def apply(src, p):
    pat = re.compile(p["pat"])
    ms = list(pat.finditer(src))
    if not ms:
        return None, "pattern not found"
    if p["nth"] == 0:
        if len(ms) != 1:
            return None, "pattern matches %d times" % len(ms)
        m = ms[0]
    else:
        if len(ms) < p["nth"]:
            return None, "only %d matches" % len(ms)
        m = ms[p["nth"] - 1]
    new = src[:m.start()] + m.expand(p["repl"]) + src[m.end():]
    if new == src:
        return None, "no change"
    return new, None


def ensure_tests():
    if os.path.exists(os.path.join(TESTS, "bin", "test_parse")):
        return
    os.makedirs(ROOT, exist_ok=True)
    rc, o = sh("cmake -S /repo -B %s -G Ninja -DCMAKE_BUILD_TYPE=Debug >/dev/null 2>&1 && cmake --build %s 2>&1 | tail -2" % (TESTS, TESTS))
    assert rc == 0, o


def suite_passes(d):
    """compile the mutant as the shared library of the prebuilt Debug test tree and run ctest"""
    lib = [f for f in os.listdir(os.path.join(TESTS, "lib")) if re.match(r"libcat\.so\.\d+\.\d+\.\d+$", f)][0]
    libpath = os.path.join(TESTS, "lib", lib)
    bak = libpath + ".orig"
    if not os.path.exists(bak):
        shutil.copy(libpath, bak)
    rc, o = sh("gcc -shared -fPIC -g -Werror -Wall -Wextra -pedantic -I%s/src %s/src/cat.c -o %s" % (d, d, libpath))
    if rc != 0:
        shutil.copy(bak, libpath)
        return None, o[-600:]
    rc, o = sh("ctest --test-dir %s -j8 --timeout 60 2>&1 | tail -4" % TESTS)
    shutil.copy(bak, libpath)
    return ("100% tests passed" in o), o[-400:]


def run_check(d, pid, tier, workers):
    env = dict(os.environ, VERIF_REPO=d, VERIF_WORKERS=str(workers), VERIF_FAIL_DIR=d + "/fails")
    t0 = time.time()
    r = subprocess.run(["/verif/check.py", pid, "--tier", tier, "--no-evidence"], capture_output=True, text=True, env=env, cwd="/verif")
    out = r.stdout + r.stderr
    for l in out.splitlines():
        if l.startswith("VIOLATION") and "/fail-" in l:
            try:
                os.remove(l.split("replay=")[1].strip())
            except OSError:
                pass
    sig = [l for l in out.splitlines() if l.startswith("violation:")]
    return r.returncode, round(time.time() - t0, 1), (sig[0][:140] if sig else "")


def main():
    args = sys.argv[1:]
    only = None
    cross = "--cross" in args
    tier = "quick"
    jobs = 2
    outp = "/verif/mutants/results.json"
    for i, a in enumerate(args):
        if a == "--only":
            only = args[i + 1]
        if a == "--tier":
            tier = args[i + 1]
        if a == "--jobs":
            jobs = int(args[i + 1])
        if a == "--out":
            outp = args[i + 1]
    ensure_tests()
    src0 = open("/repo/src/cat.c").read()
    todo = [p for p in probes.P if only is None or p["prop"] == only or p["id"] == only]
    results = {}
    if os.path.exists(outp):
        results = json.load(open(outp))
    prepared = []
    for p in todo:
        new, err = apply(src0, p)
        rec = dict(id=p["id"], prop=p["prop"], desc=p["desc"])
        if new is None:
            rec["status"] = "not-applicable: " + err
            results[p["id"]] = rec
            print("%-34s %s" % (p["id"], rec["status"]), flush=True)
            continue
        d = os.path.join(ROOT, "m_" + p["id"])
        shutil.rmtree(d, ignore_errors=True)
        os.makedirs(os.path.join(d, "src"))
        open(os.path.join(d, "src", "cat.c"), "w").write(new)
        shutil.copy("/repo/src/cat.h", os.path.join(d, "src", "cat.h"))
        ok, msg = suite_passes(d)
        if ok is None:
            rec["status"] = "does-not-compile"
            rec["detail"] = msg
        elif not ok:
            rec["status"] = "suite-killed"
        else:
            rec["status"] = "live"
        results[p["id"]] = rec
        if rec["status"] == "live" or (rec["status"] == "suite-killed" and "--include-suite-killed" in sys.argv):
            prepared.append((p, d, rec))
        else:
            print("%-34s %s" % (p["id"], rec["status"]), flush=True)
            shutil.rmtree(d, ignore_errors=True)

    def work(item):
        p, d, rec = item
        rc, dt, sig = run_check(d, p["prop"], tier, max(1, 16 // jobs))
        rec["own"] = dict(rc=rc, s=dt, sig=sig)
        rec["killed"] = rc == 1
        if cross:
            rec["cross"] = {}
            for q in range(1, 21):
                pid = "C%02d" % q
                if pid == p["prop"]:
                    continue
                rc2, dt2, sig2 = run_check(d, pid, tier, max(1, 16 // jobs))
                if rc2 != 0:
                    rec["cross"][pid] = dict(rc=rc2, sig=sig2)
        rm_build(d)
        shutil.rmtree(d, ignore_errors=True)
        return p, rec

    with ThreadPoolExecutor(max_workers=jobs) as ex:
        for p, rec in ex.map(work, prepared):
            print("%-34s %-4s %s rc=%d %5.1fs %s %s" % (p["id"], p["prop"], "KILLED  " if rec["killed"] else "SURVIVED", rec["own"]["rc"], rec["own"]["s"], rec["own"]["sig"][:90],
                                                      ("cross:" + ",".join(sorted(rec.get("cross", {})))) if cross else ""), flush=True)
            json.dump(results, open(outp, "w"), indent=1, sort_keys=True)
    json.dump(results, open(outp, "w"), indent=1, sort_keys=True)
    live = [r for r in results.values() if r.get("status") == "live"]
    print("live %d killed %d survived %d; suite-killed %d; n/a %d" % (len(live), sum(1 for r in live if r.get("killed")), sum(1 for r in live if not r.get("killed")),
          sum(1 for r in results.values() if r.get("status") == "suite-killed"), sum(1 for r in results.values() if str(r.get("status", "")).startswith("not-app"))))


if __name__ == "__main__":
    main()
