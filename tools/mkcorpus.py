#!/usr/bin/env python3
"""Deterministic seed corpus for the libFuzzer targets: FRONT bytes = a few AT lines (from the repository's tests and the
constructed hazards of DESIGN section 5), BACK bytes = pseudo-random structure bytes (descriptor, scripts, schedules)."""
import os, random, sys
LINES = [b"AT\n", b"ATZ\n", b"AT+T\n", b"AT+TA=1\n", b"AT+T=ATZ\n", b"AT+SET=1,2,\"abc\"\r\n", b"AT+SET?\n", b"AT+SET=?\n", b"AT+test=0x1F,AB01\n",
         b"at+cm?\r\n", b"AT#X=18446744073709551621\n", b"AT+T=-129,65536\n", b"ATD123\n", b"AT&F\n", b"AT+TA=\"a\\\"b\\\\c\\n\"\n", b"\r\n", b"A\n", b"ATx y\n",
         b"AT+T=" + b"y" * 40 + b"\n", b"AT+=1\r\n", b"ATE=?x\n", b"AT+TAz?x\nATZ\n", b"ATaz=0x10000000000000007\n", b"AT+VERYLONGCOMMANDNAME_0123456789=?\n"]
def main():
    rnd = random.Random(20261002)
    root = os.path.join(os.path.dirname(os.path.dirname(os.path.abspath(__file__))), "corpus")
    for pid in ("C01", "C03", "C12"):
        d = os.path.join(root, pid)
        os.makedirs(d, exist_ok=True)
        for f in os.listdir(d):
            os.remove(os.path.join(d, f))
    for i in range(160):
        front = b"".join(rnd.choice(LINES) for _ in range(rnd.randint(1, 5)))
        back = bytes(rnd.getrandbits(8) if rnd.random() < 0.85 else 0 for _ in range(rnd.choice([60, 120, 200, 320])))
        for pid in ("C01", "C03", "C12"):
            open(os.path.join(root, pid, "seed%03d" % i), "wb").write(front + back)
main()
