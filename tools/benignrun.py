#!/usr/bin/env python3
"""Run every check's quick tier against property-PRESERVING changes (benign/<id>/patch.diff) on scratch copies of the
repository: any VIOLATION here is a false alarm of the check (or the change is not as harmless as its author thought -
to be decided by reading the failing case).
usage: benignrun.py <id ...|all> [--jobs N] [--checks C01,C02]"""
import os, subprocess, sys, shutil, time, glob, hashlib
from concurrent.futures import ThreadPoolExecutor
sys.path.insert(0, os.path.dirname(os.path.abspath(__file__)))
from seedrun import rm_build


def run(bid, pid, workers):
    d = "/tmp/mut/%s_%s" % (bid, pid)
    shutil.rmtree(d, ignore_errors=True); os.makedirs(d)
    subprocess.check_call("cp -r /repo/src %s/src && cd %s && git init -q . && git apply /verif/benign/%s/patch.diff" % (d, d, bid), shell=True)
    t0 = time.time()
    env = dict(os.environ, VERIF_REPO=d, VERIF_WORKERS=str(workers), VERIF_FAIL_DIR=d + "/fails")
    r = subprocess.run(["/verif/check.py", pid, "--tier", "quick", "--no-evidence"], capture_output=True, text=True, env=env, cwd="/verif")
    out = r.stdout + r.stderr
    sig = [l for l in out.splitlines() if l.startswith("violation:") or l.startswith("CHECK-BROKEN")]
    keep = "/tmp/benign_fails/%s_%s" % (bid, pid)
    if r.returncode != 0:
        shutil.rmtree(keep, ignore_errors=True)
        if os.path.isdir(d + "/fails"):
            shutil.copytree(d + "/fails", keep)
        open(keep + ".log", "w").write(out)
    rm_build(d)
    shutil.rmtree(d, ignore_errors=True)
    return bid, pid, r.returncode, time.time() - t0, (sig[0][:220] if sig else "")


if __name__ == "__main__":
    args = [a for a in sys.argv[1:] if not a.startswith("--")]
    jobs = 2
    checks = ["C%02d" % q for q in range(1, 21)]
    for i, a in enumerate(sys.argv):
        if a == "--jobs": jobs = int(sys.argv[i + 1]); args.remove(sys.argv[i + 1])
        if a == "--checks": checks = sys.argv[i + 1].split(","); args.remove(sys.argv[i + 1])
    ids = args
    if ids == ["all"] or not ids:
        ids = sorted(os.path.basename(p) for p in glob.glob("/verif/benign/B*"))
    os.makedirs("/tmp/benign_fails", exist_ok=True)
    work = [(b, p) for b in ids for p in checks]
    with ThreadPoolExecutor(max_workers=jobs) as ex:
        for bid, pid, rc, dt, msg in ex.map(lambda w: run(w[0], w[1], max(1, 16 // jobs)), work):
            print("%-8s %-4s %-7s rc=%d %5.1fs  %s" % (bid, pid, "quiet" if rc == 0 else "ALARM", rc, dt, msg), flush=True)
