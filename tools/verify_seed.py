#!/usr/bin/env python3
"""Confirm a seeded change independently (in a scratch worktree outside /repo and /verif) and store it under
/verif/seeded/<id>-<k>/: the patch applies, the library builds with the project flags, the unedited test-suite passes
with it, the demonstration passes without it and fails with it."""
import json, os, re, subprocess, sys, shutil, glob

def sh(cmd, cwd=None, timeout=600):
    r = subprocess.run(cmd, shell=True, cwd=cwd, capture_output=True, text=True, timeout=timeout)
    return r.returncode, (r.stdout + r.stderr)

def compile_line(demo_src, default):
    txt = open(demo_src).read()
    m = re.search(r"((?:gcc|clang)[^\n*]*demo\w*\.c[^\n*]*)", txt)
    return m.group(1).strip() if m else default

BASE = os.environ.get("SEED_BASE", "/tmp/seed")
KOFF = int(os.environ.get("K_OFFSET", "0"))


def main(pid, k, srcdir):
    patch = os.path.join(srcdir, "patch%s.diff" % k); demo = os.path.join(srcdir, "demo%s.c" % k)
    kout = str(int(k) + KOFF)
    if not (os.path.exists(patch) and os.path.exists(demo)):
        print(pid, k, "missing files"); return False
    wt = "/tmp/vseed_%s_%s" % (pid, k)
    sh("git -C /repo worktree remove --force %s" % wt); shutil.rmtree(wt, ignore_errors=True)
    rc, o = sh("git -C /repo worktree add -q --detach %s HEAD" % wt)
    assert rc == 0, o
    log = {}
    try:
        shutil.copy(demo, os.path.join(wt, "demo%s.c" % k))
        os.makedirs(os.path.join(wt, "seed_out"), exist_ok=True)
        shutil.copy(demo, os.path.join(wt, "seed_out", "demo%s.c" % k))
        line = compile_line(demo, "gcc -g -I src demo%s.c src/cat.c -o demo%s -lpthread" % (k, k))
        line = re.sub(r"-o\s+\S+", "-o demo_bin", line)
        if "-o demo_bin" not in line: line += " -o demo_bin"
        if "pthread" not in line: line += " -lpthread"
        rc, o = sh(line, wt); log["compile_clean"] = rc
        if rc: print(o[-800:])
        rcs = []
        for _ in range(3):
            rc, o = sh("./demo_bin", wt, 120); rcs.append(rc)
        log["demo_clean_rc"] = rcs
        rc, o = sh("git apply %s" % patch, wt); log["apply"] = rc
        if rc: print(o[-500:])
        rc, o = sh(line, wt); log["compile_patched"] = rc
        rcs = []
        for _ in range(3):
            try:
                rc, o = sh("./demo_bin", wt, 120)
            except subprocess.TimeoutExpired:
                rc = 124
            rcs.append(rc)
        log["demo_patched_rc"] = rcs
        rc, o = sh("cmake -S . -B _b -G Ninja -DCMAKE_BUILD_TYPE=Debug >/dev/null 2>&1 && cmake --build _b 2>&1 | tail -3 && ctest --test-dir _b -j8 2>&1 | tail -3", wt)
        log["ctest_debug"] = "100% tests passed" in o and "0 tests failed out of 30" in o
        if not log["ctest_debug"]: print(o[-800:])
        rc, o = sh("cmake -S . -B _r -G Ninja -DCMAKE_BUILD_TYPE=RelWithDebInfo >/dev/null 2>&1 && cmake --build _r 2>&1 | tail -3 && ctest --test-dir _r -j8 2>&1 | tail -3", wt)
        log["ctest_relwithdebinfo"] = "100% tests passed" in o and "0 tests failed out of 30" in o
        ok = (log["compile_clean"] == 0 and all(r == 0 for r in log["demo_clean_rc"]) and log["apply"] == 0 and log["compile_patched"] == 0
              and all(r != 0 for r in log["demo_patched_rc"]) and log["ctest_debug"] and log["ctest_relwithdebinfo"])
        log["confirmed"] = ok
        print(pid, k, "CONFIRMED" if ok else "REJECTED", log)
        if ok:
            dst = "/verif/seeded/%s-%s" % (pid, kout); os.makedirs(dst, exist_ok=True)
            shutil.copy(patch, os.path.join(dst, "patch.diff")); shutil.copy(demo, os.path.join(dst, "demo.c"))
            notes = os.path.join(srcdir, "notes.md")
            if os.path.exists(notes): shutil.copy(notes, os.path.join(dst, "agent_notes.md"))
            meta = dict(property=pid, origin="independent sub-agent given only the property text and a scratch worktree",
                        demo_compile=line, verification=log,
                        what_i_ran="tools/verify_seed.py: scratch worktree of /repo HEAD; demo x3 on clean tree (exit 0); git apply; rebuild; demo x3 (exit != 0); cmake Debug + RelWithDebInfo builds with -Werror and ctest 30/30",
                        needs="see agent_notes.md (filled in below after review)", detected_by=[])
            mp = os.path.join(dst, "meta.json")
            if os.path.exists(mp):
                old = json.load(open(mp)); meta["needs"] = old.get("needs", meta["needs"]); meta["detected_by"] = old.get("detected_by", [])
            json.dump(meta, open(mp, "w"), indent=1, sort_keys=True)
        return ok
    finally:
        sh("git -C /repo worktree remove --force %s" % wt); shutil.rmtree(wt, ignore_errors=True)

if __name__ == "__main__":
    ids = sys.argv[1:] or sorted(os.path.basename(p) for p in glob.glob(BASE + "/C*"))
    for pid in ids:
        for k in ("1", "2"):
            d = "%s/%s/seed_out" % (BASE, pid)
            if os.path.exists(os.path.join(d, "patch%s.diff" % k)) and not os.path.exists("/verif/seeded/%s-%s/meta.json" % (pid, int(k) + KOFF)):
                try: main(pid, k, d)
                except Exception as e: print(pid, k, "error", e)
