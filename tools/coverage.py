#!/usr/bin/env python3-vt
"""Development tool: line/branch coverage of src/cat.c reached by the generated cases of all checks.
Builds coverage-instrumented world executables (gcc --coverage) in /tmp/covbuild, runs every property's generator for N cases
through them (single process, no Hypothesis: random blobs), then runs gcov.  usage: coverage.py [N]"""
import os, random, subprocess, sys, shutil, glob
V = os.path.dirname(os.path.dirname(os.path.abspath(__file__)))
sys.path.insert(0, V)
from pbt import build, spec as S
from pbt.draw import Draw
from pbt.worldclient import Worlds, World
import importlib

COV = "/tmp/covbuild"
N = int(sys.argv[1]) if len(sys.argv) > 1 else 400
shutil.rmtree(COV, ignore_errors=True)
os.makedirs(COV)
exes = {}
for q in (1, 2, 3, 8):
    d = os.path.join(COV, "q%d" % q)
    os.makedirs(d)
    subprocess.check_call(["gcc", "-std=gnu99", "-O0", "-g", "--coverage", "-DWORLD_GUARD", "-DCAT_UNSOLICITED_CMD_BUFFER_SIZE=%d" % q, "-I" + build.REPO + "/src", "-I" + V + "/world",
                           V + "/world/catworld.c", V + "/world/shim.c", build.REPO + "/src/cat.c", "-o", "world"], cwd=d)
    exes[q] = os.path.join(d, "world")
build.world_path = lambda qcap, flavour: exes[qcap]
build.ensure_worlds = lambda wanted: {}
rnd = random.Random(7)
tot = 0
for i in range(1, 21):
    pid = "c%02d" % i
    if pid in ("c17",):
        continue
    P = importlib.import_module("pbt.props." + pid)
    W = Worlds()
    n = 0
    lo, hi = getattr(P, "BLOB", (300, 1500))
    cases = []
    for _ in range(N):
        blob = bytes(rnd.getrandbits(8) if rnd.random() < 0.9 else 0 for _ in range(rnd.randint(lo, hi)))
        c = P.gen(Draw(blob), "quick")
        if c is not None:
            cases.append(c)
    if hasattr(P, "enumerations"):
        for name, it in P.enumerations("quick"):
            for j, c in enumerate(it):
                if j % 40 == 0:
                    cases.append(c)
    bad = 0
    for c in cases:
        subs = list(P.expand(c, W, "quick"))[:40] if hasattr(P, "expand") else [c]
        for sc in subs:
            r = P.run(sc, W)
            n += 1
            if r.violation:
                bad += 1
    W.close()
    tot += n
    print(pid, n, "cases", bad, "violations", flush=True)
print("total", tot)
for q in (1, 2, 3, 8):
    d = os.path.join(COV, "q%d" % q)
    out = subprocess.run("gcov -b -c world-cat.gcda 2>/dev/null | grep -A4 \"cat.c'\" | head -6", shell=True, cwd=d, capture_output=True, text=True).stdout
    print("q%d" % q, out.replace("\n", " | "))
