"""Generic, intent-driven generators written against the Draw interface (construction, not rejection).

Every property module composes these and decodes *its own focus first* (DESIGN 7.1 lesson 0)."""
from . import spec as S
from .spec import INT, UINT, HEX, BHEX, STR, RW, RO, WO, ERR, DATA_OK, DATA_NEXT, NEXT, OK, HOLD, HEX_OK, HEX_ERR, LIST
from . import ref

NAME_ALPHA = b"ABCDEFGHIJKLMNOPQRSTUVWXYZabcdefghijklmnopqrstuvwxyz0123456789+#$@_%&"
STEMS = [b"+T", b"+TA", b"+SET", b"Z", b"+", b"D", b"+CM", b"#X", b"E", b"+test", b"az", b"+Q_", b"&F", b"$P", b"@", b"%9"]
TAGS = [b"tag", b"x", b"", b"Hello", b"+EVT: 1", b"0123456789", b"t,\"q\"", b"long-long-long-long-tag"]
ALL_CODES = [OK, DATA_OK, DATA_NEXT, NEXT, ERR, LIST, HEX_OK, HEX_ERR, 9, -7]


def g_name(d, stems=STEMS, maxlen=8):
    """a command name built from a stem plus 0..3 characters (so names share prefixes)"""
    base = d.pick(stems)
    extra = d.weighted([(5, 0), (4, 1), (2, 2), (1, 3)])
    nm = bytearray(base)
    for _ in range(extra):
        nm.append(d.pick(b"ABTZaz019+_" if d.chance(3, 4) else NAME_ALPHA))
    if d.unlikely(1, 12):
        nm = bytearray(up_or_low(d, bytes(nm)))
    return bytes(nm[:maxlen]) or b"X"


def up_or_low(d, nm):
    return bytes((b ^ 0x20) if (65 <= (b & 0xDF) <= 90 and d.below(2)) else b for b in nm)


# numeric widths including ones the library does not support (a READ / WRITE / TEST that reaches such a variable is an ERROR)
SIZES_X = (1, 2, 4, 1, 2, 4, 1, 2, 4, 1, 2, 4, 3, 8, 5)


def g_var(d, types=(INT, UINT, HEX, BHEX, STR), sizes_num=(1, 2, 4), max_buf=12, access=(RW, RO, WO), named=True, callbacks=True, fails=True):
    t = d.pick(types)
    if t in (INT, UINT, HEX):
        sz = d.pick(sizes_num)
    else:
        sz = d.rng(1, max_buf)
    acc = d.pick(access)
    init = d.bytes(sz)
    if t == STR:
        init = bytes(x for x in init if x not in (10, 13))
        if d.chance(1, 2):
            init = bytes((x % 94) + 33 for x in init)
    v = S.mk_var(t, sz, acc, init, name=(d.pick([b"x", b"val", b"n", b"quality", b"x", b"val", b"n", b"a_rather_long_variable_name_x"]) if named and d.below(2) else None))
    if callbacks:
        v["rcb"] = 1 if d.unlikely(1, 3) else 0
        v["wcb"] = 1 if d.unlikely(1, 3) else 0
        if fails:
            if v["rcb"] and d.unlikely(1, 4):
                v["rfail"] = d.rng(1, 3)
            if v["wcb"] and d.unlikely(1, 4):
                v["wfail"] = d.rng(1, 3)
    return v


def g_steps(d, codes, maxn=3, tags=TAGS, edits=True):
    n = d.below(maxn + 1)
    return [S.mk_step(d.pick(codes), d.below(3) if edits else 0, d.pick(tags)) for _ in range(n)]


def g_cmd(d, name, maxvars=3, handlers=None, flags=True, var_kw=None, scripts=True, codes=None, desc=True):
    if handlers is None:
        h = "".join(k for k in "wrnt" if d.chance(2, 3))
    else:
        h = handlers
    nv = d.weighted([(3, 0), (4, 1), (2, 2), (1, 3)][:maxvars + 1]) if maxvars > 0 else 0
    vs = [g_var(d, **(var_kw or {})) for _ in range(nv)]
    c = S.mk_cmd(name, h, vs)
    if desc and d.unlikely(1, 4):
        c["desc"] = d.pick([b"descr", b"Set value", b"d"])
    if flags:
        if d.unlikely(1, 10):
            c["only_test"] = 1
        if d.unlikely(1, 12):
            c["disable"] = 1
        if d.unlikely(1, 6):
            c["need_all"] = 1
        if d.unlikely(1, 12):
            c["implicit"] = 1
            c["h"] = "".join(k for k in c["h"] if k == "w")
    if scripts:
        cw = codes or [OK, DATA_OK, DATA_NEXT, NEXT, ERR, LIST, HEX_OK, HEX_ERR, 9]
        for k in c["h"]:
            if d.below(2):
                c["scripts"]["0" + k] = g_steps(d, cw)
    return c


def fix_implicit_duplicates(cmds):
    """not needed any more (DESIGN C.6): C02's statement fixes the reading for an implicit-write command that has an equal
    non-implicit duplicate - the request becomes a WRITE as soon as the typed name equals an implicit-write command, and the
    command is the first equal name in registration order; the reference model and the library agree on it"""
    return
    # (kept for reference)
    seen = {}
    for c in cmds:
        seen.setdefault(ref.upname(c["name"]), []).append(c)
    for nm, cs in seen.items():
        if any(c["implicit"] for c in cs) and not all(c["implicit"] for c in cs):
            for c in cs:
                c["implicit"] = 0


def g_table(d, nmin=1, nmax=8, fix_dups=False, **kw):
    n = d.rng(nmin, nmax)
    cmds = [g_cmd(d, g_name(d), **kw) for _ in range(n)]
    if fix_dups:
        fix_implicit_duplicates(cmds)
    return cmds


def g_groups(d, cmds, maxgroups=3, disable=True):
    ng = min(len(cmds), d.weighted([(5, 1), (2, 2), (1, 3), (1, 4)][:maxgroups]))
    cuts = sorted(d.rng(1, len(cmds) - 1) for _ in range(ng - 1)) if ng > 1 else []
    gs = []
    prev = 0
    for c in cuts + [len(cmds)]:
        if c > prev:
            gs.append(dict(name=(b"g%d" % len(gs)) if d.below(2) else None, disable=1 if (disable and d.unlikely(1, 10)) else 0, cmds=cmds[prev:c]))
            prev = c
    return gs


def add_alias(d, groups):
    """register the command array of one group a second time through a further group placed behind it; exactly one
    of the two registrations is enabled (two enabled registrations of one command would make its own abbreviations
    ambiguous, which no statement speaks about).  Returns True if an alias group was added."""
    if len(groups) >= 6:
        return False
    k = d.below(len(groups))
    first_on = d.below(2)
    groups[k]["disable"] = 0 if first_on else 1
    a = dict(name=b"ga" if d.below(2) else None, disable=1 if first_on else 0, cmds=[], alias=k)
    groups.insert(d.rng(k + 1, len(groups)), a)
    # alias indices of groups behind the insertion point do not exist yet (one alias per table)
    return True


def g_sched(d, maxruns=20, maxlen=6):
    """alternating run lengths: ready, not-ready, ready, ..."""
    n = d.below(maxruns + 1)
    return [d.below(maxlen + 1) for _ in range(n)]


# ---------------- argument texts ----------------

def g_num_text(d, v, valid_bias=True):
    """argument text for a numeric variable: mostly valid, with boundary and malformed classes"""
    t, sz = v["type"], v["size"]
    rg = ref.num_range(v) or ((-128, 127) if t == INT else (0, 255))
    cls = d.weighted([(6, "in"), (3, "edge"), (2, "out"), (2, "big"), (2, "malformed")]) if not valid_bias else d.weighted([(12, "in"), (3, "edge"), (1, "out"), (1, "big"), (1, "malformed")])
    if cls == "in":
        val = d.rng(rg[0], rg[1]) if rg[1] - rg[0] < 70000 else d.pick([rg[0], rg[1], 0, 1, d.below(1 << 31)])
        val = max(rg[0], min(rg[1], val))
    elif cls == "edge":
        val = d.pick([rg[0], rg[1], rg[0] - 1, rg[1] + 1, 0, -1 if t == INT else 1])
    elif cls == "out":
        val = d.pick([rg[1] + 1 + d.below(300), rg[0] - 1 - d.below(300), 1 << 31, 1 << 32, (1 << 32) + d.below(9)])
    elif cls == "big":
        val = d.pick([1 << 63, (1 << 63) - 1, (1 << 63) + 1, 1 << 64, (1 << 64) + d.below(300), (1 << 64) * d.rng(1, 9) + d.below(200), 10 ** d.rng(19, 30) + d.below(100)])
        if t == INT and d.below(2):
            val = -val
    else:
        return d.pick([b"", b"-", b"+", b"--1", b"+-1", b"1-", b"0x", b"x1", b"1 ", b" 1", b"1a", b"0x1G", b"12,", b"abc", b"\"1\"", b"0X", b"1.5"])
    if t == UINT and val < 0:
        txt = b"-%d" % -val
    elif t == HEX:
        if val < 0:
            txt = b"-0x%X" % -val
        else:
            txt = (b"0x" if d.chance(3, 4) else b"0X") + (b"%X" % val if d.chance(2, 3) else b"%x" % val)
            if d.unlikely(1, 5):
                txt = txt[:2] + b"0" * d.rng(1, 20) + txt[2:]
    else:
        txt = b"%d" % val
        if t == INT and val >= 0 and d.unlikely(1, 6):
            txt = b"+" + txt
        if d.unlikely(1, 6):
            sgn = txt[:1] if txt[:1] in b"+-" else b""
            txt = sgn + b"0" * d.rng(1, 20) + txt[len(sgn):]
    return txt


def enc_string(payload):
    out = bytearray(b'"')
    for x in payload:
        if x == 0x5C:
            out += b"\\\\"
        elif x == 0x22:
            out += b'\\"'
        elif x == 0x0A:
            out += b"\\n"
        else:
            out.append(x)
    out += b'"'
    return bytes(out)


def g_str_payload(d, n):
    r = bytearray()
    for _ in range(n):
        r.append(d.weighted([(8, None), (1, 0x22), (1, 0x5C), (1, 0x0A), (1, 0x2C)]) or d.pick(b"abcXYZ019 _-") if d.chance(7, 8) else d.rng(1, 255))
    return bytes(x for x in r if x not in (0, 13))


def g_buf_text(d, v, valid_bias=True):
    t, sz = v["type"], v["size"]
    if t == BHEX:
        cls = d.weighted([(10, "ok"), (2, "edge"), (2, "bad")]) if valid_bias else d.weighted([(4, "ok"), (4, "edge"), (3, "bad")])
        if cls == "ok":
            n = d.rng(1, sz)
        elif cls == "edge":
            n = d.pick([sz, sz + 1, max(1, sz - 1), sz + 2])
        else:
            n = d.rng(0, sz + 1)
        txt = b"".join(d.pick([b"%02X", b"%02x"]) % d.below(256) for _ in range(n))
        if cls == "bad":
            k = d.below(4)
            if k == 0:
                txt = txt[:-1]
            elif k == 1 and txt:
                p = d.below(len(txt))
                txt = txt[:p] + d.pick([b"G", b"g", b" ", b"x", b"-", b":", b"@", b"`"]) + txt[p + 1:]
            elif k == 2:
                txt = b""
            else:
                txt = txt + d.pick([b" ", b"Z", b"0"])
        return txt
    cls = d.weighted([(10, "ok"), (3, "edge"), (2, "bad")]) if valid_bias else d.weighted([(4, "ok"), (5, "edge"), (3, "bad")])
    if cls == "ok":
        n = d.rng(0, max(0, sz - 1))
    elif cls == "edge":
        n = d.pick([max(0, sz - 1), sz, sz + 1, max(0, sz - 2)])
    else:
        n = d.rng(0, sz)
    txt = enc_string(g_str_payload(d, n))
    if cls == "bad":
        k = d.below(6)
        if k == 0:
            txt = txt[1:]
        elif k == 1:
            txt = txt[:-1]
        elif k == 2:
            txt = txt[:-1] + b"\\x\""
        elif k == 3:
            txt = txt + d.pick([b"x", b" ", b"\""])
        elif k == 4:
            txt = txt[:-1] + b"\\"
        else:
            txt = b""
    return txt


def g_arg_text(d, v, valid_bias=True):
    if v["type"] in (INT, UINT, HEX):
        return g_num_text(d, v, valid_bias)
    return g_buf_text(d, v, valid_bias)


def g_args(d, c, valid_bias=True):
    """argument list text for a command's variables"""
    vs = c["vars"]
    if not vs:
        return d.pick([b"", b"1", b"abc,def", b"?", b"\"q\"", b"0", b"x y"])
    k = len(vs)
    if d.unlikely(1, 5):
        k = d.rng(0, len(vs) + 1)
    parts = []
    for j in range(k):
        v = vs[j] if j < len(vs) else vs[-1]
        parts.append(g_arg_text(d, v, valid_bias))
    if d.unlikely(1, 12):
        # the shape of the whole list: blanks only, empty positions, commas in front / behind
        k = d.below(6)
        if k == 0:
            return d.pick([b" ", b"  ", b"   ", b"\t", b" \t ", b"      "])
        if k == 1 and parts:
            parts[d.below(len(parts))] = b""
        elif k == 2:
            return b",".join(parts) + d.pick([b",", b",,", b",,,", b", "])
        elif k == 3:
            return b"," + b",".join(parts)
        elif k == 4:
            return b"," * d.rng(1, len(vs) + 2)
        else:
            return b",".join(parts) + d.pick([b" ", b"  ", b"\t"])
    return b",".join(parts)


# ---------------- lines ----------------

def typed_name_for(d, name, exact_bias=True):
    """how the user types a registered name: exact / other case / abbreviation / extended / substituted"""
    cls = d.weighted([(8, "exact"), (3, "case"), (3, "prefix"), (1, "plus"), (1, "subst")]) if exact_bias else d.weighted([(3, "exact"), (3, "case"), (4, "prefix"), (2, "plus"), (2, "subst")])
    nm = bytes(name)
    if cls == "exact":
        return nm
    if cls == "case":
        return up_or_low(d, nm)
    if cls == "prefix":
        return nm[:d.rng(1, max(1, len(nm) - 1))] if len(nm) > 1 else nm
    if cls == "plus":
        return nm + bytes([d.pick(b"AZ09+_az")])
    p = d.below(len(nm))
    return nm[:p] + bytes([d.pick(NAME_ALPHA)]) + nm[p + 1:]


def g_line(d, cmds, valid_bias=True, cap=64, tails=(b"ATZ", b"AT+X=1", b"AT")):
    """one command line (without terminator) aimed at a command of the table, optionally damaged"""
    c = d.pick(cmds)
    forms = "nrwt"
    avail = ref.forms_available(c)
    if valid_bias and avail and d.chance(3, 4):
        form = d.pick(sorted(avail))
    else:
        form = d.pick(forms)
    nm = typed_name_for(d, c["name"], exact_bias=valid_bias)
    at = d.weighted([(8, b"AT"), (2, b"at"), (1, b"aT"), (1, b"At")])
    if form == "n":
        line = at + nm
    elif form == "r":
        line = at + nm + b"?"
    elif form == "t":
        line = at + nm + b"=?"
    else:
        line = at + nm + (b"" if c["implicit"] and d.chance(2, 3) else b"=") + g_args(d, c, valid_bias)
    if d.unlikely(1, 6) if valid_bias else d.unlikely(1, 3):
        line = damage_line(d, line, cap, tails)
    return line


def damage_line(d, line, cap, tails):
    k = d.below(9)
    tail = d.pick(tails)
    if k == 0:
        return d.pick([b"A", b"T", b"X", b"ATT", b"BT"]) + line[2:] + tail
    if k == 1:
        p = d.rng(2, len(line))
        return line[:p] + d.pick([b" ", b"!", b"*", b"(", b"~", b"\x00", b"\xff", b"/"]) + tail
    if k == 2:
        return line + b"?" + tail
    if k == 3:
        return line.split(b"=")[0].split(b"?")[0] + b"=?" + d.pick([b"x", b"?", b"=", b","]) + tail
    if k == 4:
        return line + b"=" + b"y" * d.pick([cap - 2, cap - 1, cap, cap + 1, 2 * cap]) + tail
    if k == 5:
        return line.split(b"=")[0].split(b"?")[0] + b"?" + d.pick([b"x", b"?", b"=1"]) + tail
    if k == 6:
        return d.bytes(d.rng(1, 12)).replace(b"\n", b".")
    if k == 7:
        return b"AT" + d.pick([b"?", b"=", b"=?", b"=1"]) + tail
    return line[:2] + d.pick([b"=", b"?", b"-", b" "]) + line[2:]


def add_crs(d, line, crlf=None):
    """terminate a line with LF or CRLF and sprinkle stray CRs"""
    b = bytearray(line)
    if d.unlikely(1, 8):
        for _ in range(d.rng(1, 3)):
            b.insert(d.below(len(b) + 1), 13)
    if crlf is None:
        crlf = d.below(2)
    return bytes(b) + (b"\r\n" if crlf else b"\n")


def g_input(d, cmds, nmin=1, nmax=6, **kw):
    out = bytearray()
    lines = []
    for _ in range(d.rng(nmin, nmax)):
        if d.unlikely(1, 15):
            ln = d.pick([b"", b"\r", b"\r\r"])
        else:
            ln = g_line(d, cmds, **kw)
        ln = ln.replace(b"\n", b".")
        full = add_crs(d, ln)
        lines.append(full)
        out += full
    return bytes(out), lines
