"""Event histories: generator and the QueueModel judge shared by C13, C15 (and reused by C18).

QueueModel (DESIGN 3.3): a bounded FIFO of (command, type) plus an in-progress slot, replayed over the trace:
every cat_service call that starts with no event in progress and a non-empty queue starts the head event."""
from . import spec as S, gen as G, ref
from .spec import INT, UINT, HEX, BHEX, STR, RW, RO, WO, OK, DATA_OK, DATA_NEXT, NEXT, ERR, HOLD, HEX_OK, HEX_ERR, LIST
from .trace import split_units

EV_CODES = [OK, DATA_OK, DATA_NEXT, NEXT, ERR, LIST, 9, HEX_OK, HEX_ERR]
EV_TAGS = [b"#t", b"#tag1", b"#x,y", b"#long-event-tag"]


def ends_at_once(c, typ, ucap):
    """does processing of this event end inside the cat_service call that dequeues it?"""
    if len(c["name"]) + 1 >= ucap:          # name, then '=' must fit (len < cap each time)
        return True
    if typ == 0:
        return (not ref.readable(c)) and ("r" not in c["h"])
    if not c["vars"]:
        if c["desc"] is not None:
            return len(c["name"]) + 1 + 1 + len(c["desc"]) >= ucap and False  # newline style unknown: never generated
        return False
    return False


def g_event_cmd(d, idx, sort, nev):
    nm = b"#" + d.pick([b"E", b"EV", b"a", b"Zq", b"evt_long_name"]) + b"%d" % idx
    if sort == "auto":
        vs = [G.g_var(d, max_buf=5, callbacks=False, access=(RO, RW, RO, WO), sizes_num=G.SIZES_X) for _ in range(d.rng(1, 2))]
        vs[0]["access"] = d.pick([RO, RW])
        return S.mk_cmd(nm, "", vs)
    if sort == "failing":
        k = d.below(3)
        if k == 0:
            return S.mk_cmd(nm, "t" if d.below(2) else "", [])                        # READ: nothing readable, no read handler
        if k == 1:
            return S.mk_cmd(nm, "", [S.mk_var(INT, 1, WO, b"\x01")])                  # READ: only write-only variables
        return S.mk_cmd(b"#very_long_event_name_that_does_not_fit_%d" % idx, "r", [])  # name does not fit the buffer
    # scripted / chain
    vs = [G.g_var(d, max_buf=4, callbacks=False, access=(RO, RW)) for _ in range(d.below(2))]
    c = S.mk_cmd(nm, "rt", vs)
    for k in "rt":
        steps = []
        for _ in range(d.rng(0, 5)):
            st = S.mk_step(d.pick(EV_CODES), d.pick([0, 1, 2]), d.pick(EV_TAGS))
            if sort == "chain" and d.chance(1, 2):
                st["act"], st["a1"], st["a2"] = S.WA_TRIG, d.below(nev), d.below(2)
            steps.append(st)
        c["scripts"]["1" + k] = steps
    return c


def gen_history(d, qcap, flags, lines=True, holds=True, long_history=True, line_tags=None, lists=False):
    nev = d.rng(2, 5)
    sorts = [d.weighted([(3, "auto"), (3, "scripted"), (2, "chain"), (3, "failing")]) for _ in range(nev)]
    if "failing" not in sorts and d.chance(2, 3):
        sorts[d.below(nev)] = "failing"
    evs = [g_event_cmd(d, i, sorts[i], nev) for i in range(nev)]
    lcs = []
    if lines:
        for j in range(d.rng(1, 2)):
            h = "".join(k for k in "wrn" if d.chance(2, 3)) or "n"
            c = S.mk_cmd([b"+W", b"+RUN"][j], h, [G.g_var(d, max_buf=4, callbacks=False, sizes_num=G.SIZES_X)] if d.below(2) else [])
            codes = [OK, DATA_OK, DATA_NEXT, NEXT, ERR] + ([HOLD, HOLD] if holds else [])
            for k in h:
                if d.below(2):
                    # (lists: a run handler may ask for the command list - some entries, e.g. of a long-named event command, do not fit)
                    ck = codes + ([S.LIST, S.LIST] if (lists and k == "n") else [])
                    c["scripts"]["0" + k] = [S.mk_step(d.pick(ck), d.below(3) if k == "r" else 0, d.pick(line_tags or G.TAGS[:5])) for _ in range(d.rng(1, 3))]
            if c["vars"] and d.unlikely(1, 4):
                c["need_all"] = 1
            lcs.append(c)
    for c in evs:
        if d.unlikely(1, 6):
            c["disable"] = 1          # a trigger is accepted whatever the command's disable flag says (C13: iff the ring has room)
        if d.unlikely(1, 8):
            c["only_test"] = 1
    cmds = evs + lcs
    actions = []
    step = 0
    nops = d.rng(4, 60) if long_history else d.rng(2, 14)
    marathon = long_history and d.unlikely(1, 40)
    outer = d
    if marathon:
        # several hundred accepted events on one parser object (internal ring counters wrap).  The case's byte string is far too
        # short to spell out so many operations, so they are drawn from a byte stream expanded deterministically (SHA-256 in counter
        # mode) from four drawn bytes: still a pure function of the case bytes; failures are replayed from the saved spec anyway.
        import hashlib
        from .draw import Draw
        nops = d.rng(520, 800)
        seed = d.bytes(4)
        d = Draw(b"".join(hashlib.sha256(seed + k.to_bytes(4, "little")).digest() for k in range(400)))
    def target():
        # mostly the event commands; now and then a command that lines use too (the one a hold belongs to included)
        if lcs and d.unlikely(1, 6):
            return nev + d.below(len(lcs))
        return d.below(nev)
    for _ in range(nops):
        step += d.pick([0, 0, 0, 1, 1, 2, 3, 5, 9, 20, 60, 150]) if not marathon else d.pick([0, 3, 9, 20, 30, 40])
        k = d.weighted([(8, "trig"), (2, "full"), (2, "buf"), (1, "proc"), (2, "burst"), (1, "dis")])
        if k == "trig":
            actions.append([S.AT_STEP, step, S.WA_TRIG, target(), d.pick([0, 1, 0, 1, 2, 3]), None])
        elif k == "burst":
            for _ in range(d.rng(2, qcap + 2)):
                if d.below(4) == 0:
                    actions.append([S.AT_STEP, step, S.WA_ISFULL, 0, 0, None])
                actions.append([S.AT_STEP, step, S.WA_TRIG, target(), d.pick([0, 1]), None])
        elif k == "full":
            actions.append([S.AT_STEP, step, S.WA_ISFULL, 0, 0, None])
            if d.below(2):
                actions.append([S.AT_STEP, step, S.WA_TRIG, d.below(nev), d.below(2), None])
        elif k == "dis":
            # the application flips the disable flag of an event command at an arbitrary moment: it hides the command from the
            # input stream only - events that were accepted are delivered whole
            actions.append([S.AT_STEP, step, S.WA_SETDIS, d.below(nev), d.below(2), None])
        elif k == "buf":
            actions.append([S.AT_STEP, step, S.WA_ISBUFFERED, d.below(nev), d.pick([-1, 1, 3]), None])
        else:
            actions.append([S.AT_STEP, step, S.WA_GETPROCESSED, 1, 0, None])
    d = outer
    inp = b""
    if lcs and d.chance(2, 3):
        for _ in range(d.rng(1, 3)):
            c = d.pick(lcs)
            form = d.pick([k for k in c["h"]])
            ln = b"AT" + c["name"] + {"w": b"=" + (b"" if d.unlikely(1, 6) else G.g_args(d, c, True)), "r": b"?", "n": b""}[form]
            if form == "w" and d.unlikely(1, 5):
                ln += bytes(d.pick([0, 0, 1, 8, 9, 127, 200, 255, 32]) for _ in range(d.rng(1, 4))) + d.pick([b"", b"1", b"x,y"])
            inp += ln.replace(b"\n", b".").replace(b"\r", b".") + (b"\r\n" if d.below(3) == 0 else b"\n")
        # every possible hold is released eventually
        for k in range(1, 8):
            actions.append([S.AT_STALL, k, S.WA_HOLDEXIT, d.below(2), 0, None])
        if d.unlikely(1, 6):
            # the input ends inside a line (no LF ever comes) and, once everything else has settled, an event is raised -
            # now and then for the very command that line names: events do not wait for the line to be completed
            j = d.below(len(lcs))
            c = lcs[j]
            inp += b"AT" + c["name"] + d.pick([b"", b"=", b"=1", b"=12,", b"?", b"=\"ab"])
            actions.append([S.AT_LINE, inp.count(b"\n"), S.WA_TRIG, (nev + j) if d.chance(2, 3) else d.below(nev), d.below(2), None])
    uc = d.pick([8, 10, 12, 16, 24, 32, 48])
    shared = d.below(2) == 0
    cc = max(24, uc) if shared else 32
    s = S.mk_spec(cmds, input=inp, qcap=qcap, shared=shared, bufsz=2 * uc if shared else cc, ubufsz=uc,
                  rs=G.g_sched(d, 6) if inp else [], ws=G.g_sched(d, 10), actions=actions, flags=flags)
    if evs and lcs and d.unlikely(1, 5):
        # event commands in a group of their own that is disabled as a whole
        s["groups"] = [dict(name=b"ev", disable=1, cmds=evs), dict(name=None, disable=0, cmds=lcs)]
    return s, nev


class QueueVerdict:
    def __init__(self):
        self.violation = None
        self.accepted = 0
        self.full = 0
        self.immediate = 0
        self.started = 0
        self.max_waiting = 0
        self.queries = 0
        self.two_pending = False
        self.pending_by_step = []
        self.fail_then_queued = False


def status_by_step(t):
    """cat_service status after every step (the world records changes only)"""
    out = []
    cur = None
    idx = 0
    st = t.status
    for step in range(t.q["steps"]):
        while idx < len(st) and st[idx][0] <= step:
            cur = st[idx][1]
            idx += 1
        out.append(cur)
    return out


def judge_queue(s, t, check_outputs=True, check_ok_idle=False):
    """replay the QueueModel over the trace; returns a QueueVerdict.

    The model is a bounded FIFO of accepted events plus one in-progress slot.  It does not assume HOW MANY events a single
    cat_service call finishes or starts (no statement fixes that): after every observation it keeps the set of all positions
    "so many events started, the last one finished or not" that are consistent with everything seen so far - trigger results,
    full / buffered / processed-command answers, unsolicited handler invocations and the processed command sampled after every
    call - and reports a violation only when no position is left.  Position p: (p + 1) // 2 events have been started, the last
    started one is still in progress iff p is odd; the waiting events are the accepted ones behind it, in acceptance order."""
    v = QueueVerdict()
    cs = S.all_cmds(s)
    qcap = s["qcap"]
    uc = S.ucap(s)
    m = ref.Model(s)
    acc = []              # accepted events in acceptance order: (ci, typ)
    P = {0}               # consistent positions
    nsteps = t.q["steps"]
    pre = {}
    insvc = {}
    for k, e in t.events:
        if k == "A":
            (insvc if e.insvc else pre).setdefault(e.step, []).append(e)
        elif k == "H" and e.fsm == "u":
            insvc.setdefault(e.step, []).append(e)
    samples = {}
    for st, pu, busy, hold in t.samples:
        samples[st] = pu
    cur_pu = -1           # observed processed unsolicited command after the previous step
    stat = status_by_step(t) if check_ok_idle else None

    def inprog(p):
        return acc[(p + 1) // 2 - 1] if p % 2 else None

    def nwait(p):
        return len(acc) - (p + 1) // 2

    def closure(ps):
        return set(range(min(ps), 2 * len(acc) + 1)) if ps else set()

    def describe(ps):
        p = min(ps)
        return "waiting %r in progress %r" % (acc[(p + 1) // 2:], inprog(p))

    def do_api(e, ps):
        """filter the position set by one API observation; returns (new set, message-if-empty)"""
        if e.name == "trig":
            ci, typ = e.args[0], e.args[1]
            if e.result == S.S_OK:
                ok = {p for p in ps if nwait(p) < qcap}
                if not ok:
                    return ok, "trigger of command %d at step %d was accepted although %d events are waiting (capacity %d)" % (ci, e.step, min(nwait(p) for p in ps), qcap)
                if any(nwait(p) >= 1 for p in ok) and ends_at_once(cs[ci], typ, uc) is False and any(ends_at_once(cs[a], b, uc) for a, b in acc[(min(ok) + 1) // 2:]):
                    v.fail_then_queued = True
                acc.append((ci, typ))
                v.accepted += 1
                if ends_at_once(cs[ci], typ, uc):
                    v.immediate += 1
                v.max_waiting = max(v.max_waiting, min(nwait(p) for p in ok))
                return ok, None
            if e.result == S.S_FULL:
                ok = {p for p in ps if nwait(p) >= qcap}
                if not ok:
                    return ok, "trigger at step %d returned BUFFER_FULL with at most %d events waiting (capacity %d)" % (e.step, max(nwait(p) for p in ps), qcap)
                v.full += 1
                return ok, None
            return set(), "trigger of command %d at step %d returned %d" % (ci, e.step, e.result)
        if e.name == "isfull":
            v.queries += 1
            ok = {p for p in ps if (S.S_FULL if nwait(p) >= qcap else S.S_OK) == e.result}
            return ok, None if ok else "cat_is_unsolicited_buffer_full at step %d returned %d with %s (capacity %d)" % (e.step, e.result, describe(ps), qcap)
        if e.name == "isbuf":
            v.queries += 1
            ci, ty = e.args
            want = [0] if ty == 1 else ([1] if ty == 3 else [0, 1])

            def pend(p):
                ip = inprog(p)
                return any(w[0] == ci and w[1] in want for w in acc[(p + 1) // 2:]) or (ip is not None and ip[0] == ci and ip[1] in want)
            ok = {p for p in ps if (S.S_BUSY if pend(p) else S.S_OK) == e.result}
            return ok, None if ok else "cat_is_unsolicited_event_buffered(cmd %d, type %d) at step %d returned %d; %s" % (ci, ty, e.step, e.result, describe(ps))
        if e.name == "getproc" and e.args[0] == 1:
            v.queries += 1
            ok = {p for p in ps if (inprog(p)[0] if inprog(p) is not None else -1) == e.result}
            return ok, None if ok else "cat_get_processed_command(UNSOLICITED) at step %d returned %d; %s" % (e.step, e.result, describe(ps))
        return ps, None

    for st in range(nsteps):
        for e in pre.get(st, []):
            P, msg = do_api(e, P)
            if not P:
                v.violation = ("queue-api", msg)
                return v
        # the service call of this step: it may finish and start any number of events, in order
        for e in insvc.get(st, []):
            P = closure(P)
            if hasattr(e, "fsm"):
                kind = e.kind
                ok = {p for p in P if inprog(p) is not None and inprog(p)[0] == e.ci and kind == ("r" if inprog(p)[1] == 0 else "t")}
                if not ok:
                    v.violation = ("event-order", "unsolicited %s handler of command %d ran at step %d; the model has %s (accepted so far %r)" % (kind, e.ci, st, describe(P), acc[-6:]))
                    return v
                P = ok
            else:
                P, msg = do_api(e, P)
                if not P:
                    v.violation = ("queue-api", msg)
                    return v
        P = closure(P)
        if st in samples:
            cur_pu = samples[st]
        ok = {p for p in P if (inprog(p)[0] if inprog(p) is not None else -1) == cur_pu}
        if not ok:
            if cur_pu != -1 and not acc:
                v.violation = ("phantom-event", "after step %d the library processes command %d but nothing was accepted" % (st, cur_pu))
            else:
                v.violation = ("event-order", "after step %d the library processes command %d, which no FIFO order of the accepted events explains: %s (accepted %r)" % (st, cur_pu, describe(P), acc[-6:]))
            return v
        P = ok
        if stat is not None and stat[st] == S.S_OK:
            ok = {p for p in P if p == 2 * len(acc)}
            if not ok:
                v.violation = ("ok-with-pending-event", "cat_service returned OK at step %d although at least %d accepted events are not finished (%s)" % (st, min(nwait(p) + (p % 2) for p in P), describe(P)))
                return v
            P = ok
        least = min(nwait(p) + (p % 2) for p in P)      # events certainly still pending (the most advanced consistent position)
        v.pending_by_step.append(least)
        if least >= 2:
            v.two_pending = True
    v.started = len(acc)
    if 2 * len(acc) not in P:
        v.violation = ("not-drained", "run ended (%s) with %s" % (t.reason, describe(P)))
        return v
    order = list(acc)
    if check_outputs:
        # each accepted event produces its handler invocations and units exactly once, in acceptance order
        exp_units = []
        exp_h = []
        try:
            for ci, typ in order:
                p = m.event(ci, typ, b"\n")
                exp_units += [bytes(u) for u in p.units if bytes(u).startswith(b"#")]   # (texts of commands that lines use too are not attributed)
                exp_h += [(c[2], c[3], c[4], c[6]) for c in p.cbs if c[0] == "H"]
        except ref.Unknown:
            return v
        units, rest = split_units(t.out)
        got_units = [u[1] for u in units if u[1].startswith(b"#")]
        got_h = [(h.ci, h.kind, h.seen, h.code) for h in t.handlers if h.fsm == "u"]
        # an event on a command that lines write to prints the current value, which this model does not track (the text, and
        # with it whether the text fits and the handler runs at all): only the queue bookkeeping above is judged for those
        shared_cmd = lambda ci: not cs[ci]["name"].startswith(b"#")
        exp_h = [x for x in exp_h if not shared_cmd(x[0])]
        got_h = [x for x in got_h if not shared_cmd(x[0])]
        if got_h != exp_h:
            v.violation = ("event-handlers", "handler invocations for the accepted events %r: expected %r, observed %r" % (order, exp_h, got_h))
            return v
        if got_units != exp_units:
            v.violation = ("event-units", "units for the accepted events %r: expected %r, observed %r (output %r)" % (order, exp_units, got_units, t.out[-300:]))
            return v
    return v


def expand_samples(t):
    """per-step arrays (processed_u, busy, hold) from the on-change P records"""
    n = t.q["steps"]
    pu, busy, hold = [-1] * n, [0] * n, [0] * n
    cur = (-1, 0, 0)
    idx = 0
    sm = t.samples
    for st in range(n):
        while idx < len(sm) and sm[idx][0] <= st:
            cur = sm[idx][1:]
            idx += 1
        pu[st], busy[st], hold[st] = cur
    return pu, busy, hold


def hold_timeline(t):
    """expected cat_is_hold after every step: HOLD from the step in which a command handler returned HOLD until the step
    in which the first accepted release request is made (cat_hold_exit returning OK, or an event handler returning
    HOLD_EXIT_* while held); the library acts on a request in the same / the next service call, which is the call of
    that step.  Returns (list of bool per step, list of hold windows (start, release_step or None, status))."""
    n = t.q["steps"]
    held = False
    exp = [False] * n
    windows = []
    last_step = 0
    marks = []   # (step, held_after_this_event)
    for k, e in t.events:
        if k == "H":
            if e.fsm == "c" and e.code == S.HOLD and not held:
                held = True
                windows.append([e.step, None, None])
                marks.append((e.step, True))
            elif e.fsm == "u" and e.code in (S.HEX_OK, S.HEX_ERR) and windows and (held or windows[-1][1] == e.step):
                # (a request made in the same step as an earlier one still reaches the library before it acts)
                if held:
                    windows[-1][1] = e.step
                    windows[-1][2] = []
                    marks.append((e.step, False))
                held = False
                windows[-1][2].append(0 if e.code == S.HEX_OK else 1)
        elif k == "A" and e.name == "holdexit":
            if windows and (held or (windows[-1][1] == e.step and not e.insvc)):
                # accepted (the return value is judged by C14); several requests can reach the library before it acts
                if held:
                    windows[-1][1] = e.step
                    windows[-1][2] = []
                    marks.append((e.step, False))
                held = False
                windows[-1][2].append(e.args[0])
    cur = False
    mi = 0
    for st in range(n):
        while mi < len(marks) and marks[mi][0] <= st:
            cur = marks[mi][1]
            mi += 1
        exp[st] = cur
    return exp, windows


def hold_zones(windows, hold, n):
    """what cat_is_hold must answer after every step: 'H' HOLD, 'O' OK, '?' either.

    HOLD is required from the step in which a command handler returned HOLD up to the release request.  From the request on the
    statements leave a window: C14 ends the suspension "until release is requested", C18 says HOLD "if and only if a command is
    currently suspended", and an implementation may leave the suspended state at the request itself, in the service call that acts
    on it, or when the deferred result code can finally be sent.  So from the step of the request the answer is free until it is OK
    for the first time; from then on it must stay OK until the next hold begins."""
    z = ["O"] * n
    starts = [w[0] for w in windows] + [n]
    for wi, (start, rel, st) in enumerate(windows):
        end = rel if rel is not None else n
        for s in range(start, min(end, n)):
            z[s] = "H"
        if rel is not None:
            s = rel
            while s < min(starts[wi + 1], n):
                z[s] = "?"
                if hold[s] != S.S_HOLD:
                    break
                s += 1
    return z


def judge_hold_api(t, z, n):
    """cat_is_hold / cat_hold_exit calls made between two service calls, judged with the zone after the previous step; a call that
    follows an accepted release request of the same gap may already see the suspension ended.  Returns (violation or None, spurious
    cat_hold_exit records)."""
    spurious = []
    released_in_gap = {}
    for a in t.apis:
        if a.insvc or a.step >= n:
            continue
        prev = a.step - 1
        zone = z[prev] if 0 <= prev < n else "O"
        if zone == "H" and released_in_gap.get(a.step):
            zone = "?"
        if a.name == "ishold":
            ok = {"H": (S.S_HOLD,), "O": (S.S_OK,), "?": (S.S_HOLD, S.S_OK)}[zone]
            if a.result not in ok:
                return ("is-hold", "cat_is_hold queried before service call %d returned %d, allowed %r" % (a.step, a.result, ok)), spurious
        elif a.name == "holdexit":
            ok = {"H": (S.S_OK,), "O": (S.S_NOT_HOLD,), "?": (S.S_OK, S.S_NOT_HOLD)}[zone]
            if a.result not in ok:
                return ("hold-exit-result", "cat_hold_exit before service call %d returned %d, allowed %r" % (a.step, a.result, ok)), spurious
            if zone == "H" or (zone == "?" and a.result == S.S_OK):
                released_in_gap[a.step] = True
            if zone == "O":
                spurious.append(a)
    return None, spurious
