"""Event histories: generator and the QueueModel judge shared by C13, C15 (and reused by C18).

QueueModel (DESIGN 3.3): a bounded FIFO of (command, type) plus an in-progress slot, replayed over the trace:
every cat_service call that starts with no event in progress and a non-empty queue starts the head event."""
from . import spec as S, gen as G, ref
from .spec import INT, UINT, HEX, BHEX, STR, RW, RO, WO, OK, DATA_OK, DATA_NEXT, NEXT, ERR, HOLD, HEX_OK, HEX_ERR, LIST
from .trace import split_units

EV_CODES = [OK, DATA_OK, DATA_NEXT, NEXT, ERR, LIST, 9, HEX_OK, HEX_ERR]
EV_TAGS = [b"#t", b"#tag1", b"#x,y", b"#long-event-tag"]


def ends_at_once(c, typ, ucap):
    """does processing of this event end inside the cat_service call that dequeues it?"""
    if len(c["name"]) + 1 >= ucap:          # name, then '=' must fit (len < cap each time)
        return True
    if typ == 0:
        return (not ref.readable(c)) and ("r" not in c["h"])
    if not c["vars"]:
        if c["desc"] is not None:
            return len(c["name"]) + 1 + 1 + len(c["desc"]) >= ucap and False  # newline style unknown: never generated
        return False
    return False


def g_event_cmd(d, idx, sort, nev):
    nm = b"#" + d.pick([b"E", b"EV", b"a", b"Zq", b"evt_long_name"]) + b"%d" % idx
    if sort == "auto":
        vs = [G.g_var(d, max_buf=5, callbacks=False, access=(RO, RW, RO, WO), sizes_num=G.SIZES_X) for _ in range(d.rng(1, 2))]
        vs[0]["access"] = d.pick([RO, RW])
        return S.mk_cmd(nm, "", vs)
    if sort == "failing":
        k = d.below(3)
        if k == 0:
            return S.mk_cmd(nm, "t" if d.below(2) else "", [])                        # READ: nothing readable, no read handler
        if k == 1:
            return S.mk_cmd(nm, "", [S.mk_var(INT, 1, WO, b"\x01")])                  # READ: only write-only variables
        return S.mk_cmd(b"#very_long_event_name_that_does_not_fit_%d" % idx, "r", [])  # name does not fit the buffer
    # scripted / chain
    vs = [G.g_var(d, max_buf=4, callbacks=False, access=(RO, RW)) for _ in range(d.below(2))]
    c = S.mk_cmd(nm, "rt", vs)
    for k in "rt":
        steps = []
        for _ in range(d.rng(0, 5)):
            st = S.mk_step(d.pick(EV_CODES), d.pick([0, 1, 2]), d.pick(EV_TAGS))
            if sort == "chain" and d.chance(1, 2):
                st["act"], st["a1"], st["a2"] = S.WA_TRIG, d.below(nev), d.below(2)
            steps.append(st)
        c["scripts"]["1" + k] = steps
    return c


def gen_history(d, qcap, flags, lines=True, holds=True, long_history=True, line_tags=None, lists=False):
    nev = d.rng(2, 5)
    sorts = [d.weighted([(3, "auto"), (3, "scripted"), (2, "chain"), (3, "failing")]) for _ in range(nev)]
    if "failing" not in sorts and d.chance(2, 3):
        sorts[d.below(nev)] = "failing"
    evs = [g_event_cmd(d, i, sorts[i], nev) for i in range(nev)]
    lcs = []
    if lines:
        for j in range(d.rng(1, 2)):
            h = "".join(k for k in "wrn" if d.chance(2, 3)) or "n"
            c = S.mk_cmd([b"+W", b"+RUN"][j], h, [G.g_var(d, max_buf=4, callbacks=False, sizes_num=G.SIZES_X)] if d.below(2) else [])
            codes = [OK, DATA_OK, DATA_NEXT, NEXT, ERR] + ([HOLD, HOLD] if holds else [])
            for k in h:
                if d.below(2):
                    # (lists: a run handler may ask for the command list - some entries, e.g. of a long-named event command, do not fit)
                    ck = codes + ([S.LIST, S.LIST] if (lists and k == "n") else [])
                    c["scripts"]["0" + k] = [S.mk_step(d.pick(ck), d.below(3) if k == "r" else 0, d.pick(line_tags or G.TAGS[:5])) for _ in range(d.rng(1, 3))]
            if c["vars"] and d.unlikely(1, 4):
                c["need_all"] = 1
            lcs.append(c)
    for c in evs:
        if d.unlikely(1, 6):
            c["disable"] = 1          # a trigger is accepted whatever the command's disable flag says (C13: iff the ring has room)
        if d.unlikely(1, 8):
            c["only_test"] = 1
    cmds = evs + lcs
    actions = []
    step = 0
    nops = d.rng(4, 60) if long_history else d.rng(2, 14)
    def target():
        # mostly the event commands; now and then a command that lines use too (the one a hold belongs to included)
        if lcs and d.unlikely(1, 6):
            return nev + d.below(len(lcs))
        return d.below(nev)
    for _ in range(nops):
        step += d.pick([0, 0, 0, 1, 1, 2, 3, 5, 9, 20, 60, 150])
        k = d.weighted([(8, "trig"), (2, "full"), (2, "buf"), (1, "proc"), (2, "burst"), (1, "dis")])
        if k == "trig":
            actions.append([S.AT_STEP, step, S.WA_TRIG, target(), d.pick([0, 1, 0, 1, 2, 3]), None])
        elif k == "burst":
            for _ in range(d.rng(2, qcap + 2)):
                if d.below(4) == 0:
                    actions.append([S.AT_STEP, step, S.WA_ISFULL, 0, 0, None])
                actions.append([S.AT_STEP, step, S.WA_TRIG, target(), d.pick([0, 1]), None])
        elif k == "full":
            actions.append([S.AT_STEP, step, S.WA_ISFULL, 0, 0, None])
            if d.below(2):
                actions.append([S.AT_STEP, step, S.WA_TRIG, d.below(nev), d.below(2), None])
        elif k == "dis":
            # the application flips the disable flag of an event command at an arbitrary moment: it hides the command from the
            # input stream only - events that were accepted are delivered whole
            actions.append([S.AT_STEP, step, S.WA_SETDIS, d.below(nev), d.below(2), None])
        elif k == "buf":
            actions.append([S.AT_STEP, step, S.WA_ISBUFFERED, d.below(nev), d.pick([-1, 1, 3]), None])
        else:
            actions.append([S.AT_STEP, step, S.WA_GETPROCESSED, 1, 0, None])
    inp = b""
    if lcs and d.chance(2, 3):
        for _ in range(d.rng(1, 3)):
            c = d.pick(lcs)
            form = d.pick([k for k in c["h"]])
            ln = b"AT" + c["name"] + {"w": b"=" + (b"" if d.unlikely(1, 6) else G.g_args(d, c, True)), "r": b"?", "n": b""}[form]
            if form == "w" and d.unlikely(1, 5):
                ln += bytes(d.pick([0, 0, 1, 8, 9, 127, 200, 255, 32]) for _ in range(d.rng(1, 4))) + d.pick([b"", b"1", b"x,y"])
            inp += ln.replace(b"\n", b".").replace(b"\r", b".") + (b"\r\n" if d.below(3) == 0 else b"\n")
        # every possible hold is released eventually
        for k in range(1, 8):
            actions.append([S.AT_STALL, k, S.WA_HOLDEXIT, d.below(2), 0, None])
        if d.unlikely(1, 6):
            # the input ends inside a line (no LF ever comes) and, once everything else has settled, an event is raised -
            # now and then for the very command that line names: events do not wait for the line to be completed
            j = d.below(len(lcs))
            c = lcs[j]
            inp += b"AT" + c["name"] + d.pick([b"", b"=", b"=1", b"=12,", b"?", b"=\"ab"])
            actions.append([S.AT_LINE, inp.count(b"\n"), S.WA_TRIG, (nev + j) if d.chance(2, 3) else d.below(nev), d.below(2), None])
    uc = d.pick([8, 10, 12, 16, 24, 32, 48])
    shared = d.below(2) == 0
    cc = max(24, uc) if shared else 32
    s = S.mk_spec(cmds, input=inp, qcap=qcap, shared=shared, bufsz=2 * uc if shared else cc, ubufsz=uc,
                  rs=G.g_sched(d, 6) if inp else [], ws=G.g_sched(d, 10), actions=actions, flags=flags)
    if evs and lcs and d.unlikely(1, 5):
        # event commands in a group of their own that is disabled as a whole
        s["groups"] = [dict(name=b"ev", disable=1, cmds=evs), dict(name=None, disable=0, cmds=lcs)]
    return s, nev


class QueueVerdict:
    def __init__(self):
        self.violation = None
        self.accepted = 0
        self.full = 0
        self.immediate = 0
        self.started = 0
        self.max_waiting = 0
        self.queries = 0
        self.two_pending = False
        self.pending_by_step = []
        self.fail_then_queued = False


def status_by_step(t):
    """cat_service status after every step (the world records changes only)"""
    out = []
    cur = None
    idx = 0
    st = t.status
    for step in range(t.q["steps"]):
        while idx < len(st) and st[idx][0] <= step:
            cur = st[idx][1]
            idx += 1
        out.append(cur)
    return out


def judge_queue(s, t, check_outputs=True, check_ok_idle=False):
    """replay the QueueModel over the trace; returns a QueueVerdict"""
    v = QueueVerdict()
    cs = S.all_cmds(s)
    qcap = s["qcap"]
    uc = S.ucap(s)
    m = ref.Model(s)
    waiting = []          # accepted, not yet started: (ci, typ)
    inprog = None         # (ci, typ) being processed according to the model
    order = []            # started events in order
    # group records by step
    nsteps = t.q["steps"]
    pre = {}
    insvc = {}
    for k, e in t.events:
        if k == "A":
            (insvc if e.insvc else pre).setdefault(e.step, []).append(e)
        elif k == "H" and e.fsm == "u":
            insvc.setdefault(e.step, []).append(e)
    samples = {}
    for st, pu, busy, hold in t.samples:
        samples[st] = pu
    probes = {p[0]: p for p in t.probes}
    cur_pu = -1           # observed processed unsolicited command after the previous step
    stat = status_by_step(t) if check_ok_idle else None

    def do_api(e):
        nonlocal waiting
        if e.name == "trig":
            ci, typ = e.args[0], e.args[1]
            if len(waiting) < qcap:
                if e.result != S.S_OK:
                    return "trigger of command %d at step %d returned %d with %d of %d slots used" % (ci, e.step, e.result, len(waiting), qcap)
                waiting.append((ci, typ))
                v.accepted += 1
                v.max_waiting = max(v.max_waiting, len(waiting))
            else:
                if e.result != S.S_FULL:
                    return "trigger at step %d returned %d although %d events are waiting (capacity %d)" % (e.step, e.result, len(waiting), qcap)
                v.full += 1
        elif e.name == "isfull":
            v.queries += 1
            exp = S.S_FULL if len(waiting) >= qcap else S.S_OK
            if e.result != exp:
                return "cat_is_unsolicited_buffer_full at step %d returned %d with %d waiting (capacity %d)" % (e.step, e.result, len(waiting), qcap)
        elif e.name == "isbuf":
            v.queries += 1
            ci, ty = e.args
            want = [0] if ty == 1 else ([1] if ty == 3 else [0, 1])
            pend = any(w[0] == ci and w[1] in want for w in waiting) or (inprog is not None and inprog[0] == ci and inprog[1] in want)
            if e.result != (S.S_BUSY if pend else S.S_OK):
                return "cat_is_unsolicited_event_buffered(cmd %d, type %d) at step %d returned %d; waiting %r in progress %r" % (ci, ty, e.step, e.result, waiting, inprog)
        elif e.name == "getproc" and e.args[0] == 1:
            v.queries += 1
            exp = inprog[0] if inprog is not None else -1
            if e.result != exp:
                return "cat_get_processed_command(UNSOLICITED) at step %d returned %d, model says %d" % (e.step, e.result, exp)
        return None

    for st in range(nsteps):
        for e in pre.get(st, []):
            r = do_api(e)
            if r:
                v.violation = ("queue-api", r)
                return v
        # the service call of this step
        started = None
        if inprog is None and waiting:
            started = waiting.pop(0)
            inprog = started
            order.append(started)
            v.started += 1
        for e in insvc.get(st, []):
            if hasattr(e, "fsm"):
                if inprog is None or e.ci != inprog[0] or e.kind != ("r" if inprog[1] == 0 else "t"):
                    v.violation = ("event-order", "unsolicited %s handler of command %d ran at step %d but the model has %r in progress (started order %r)" % (e.kind, e.ci, st, inprog, order[-4:]))
                    return v
            else:
                r = do_api(e)
                if r:
                    v.violation = ("queue-api", r)
                    return v
        if st in samples:
            cur_pu = samples[st]
        # reconcile the in-progress slot with the observation after the call
        if inprog is not None:
            if cur_pu == -1:
                if started is not None and not ends_at_once(cs[started[0]], started[1], uc):
                    v.violation = ("event-lost", "event %r was dequeued at step %d and processing ended in the same call, but it should be processed (capacity %d)" % (started, st, uc))
                    return v
                if started is not None:
                    v.immediate += 1
                    if waiting:
                        v.fail_then_queued = True
                inprog = None
            elif cur_pu != inprog[0]:
                v.violation = ("event-order", "after step %d the library processes command %d, the model says %r (acceptance order %r)" % (st, cur_pu, inprog, order[-4:]))
                return v
        else:
            if cur_pu != -1:
                v.violation = ("phantom-event", "after step %d the library processes command %d but nothing was accepted" % (st, cur_pu))
                return v
        v.pending_by_step.append(len(waiting) + (1 if inprog is not None else 0))
        if len(waiting) + (1 if inprog is not None else 0) >= 2:
            v.two_pending = True
        if stat is not None and stat[st] == S.S_OK and (waiting or inprog is not None):
            v.violation = ("ok-with-pending-event", "cat_service returned OK at step %d although events %r are waiting and %r is in progress" % (st, waiting, inprog))
            return v
    if waiting or inprog is not None:
        v.violation = ("not-drained", "run ended (%s) with %r waiting and %r in progress" % (t.reason, waiting, inprog))
        return v
    if check_outputs:
        # each started event produces its handler invocations and units exactly once, in order
        exp_units = []
        exp_h = []
        try:
            for ci, typ in order:
                p = m.event(ci, typ, b"\n")
                exp_units += [bytes(u) for u in p.units if bytes(u).startswith(b"#")]   # (texts of commands that lines use too are not attributed)
                exp_h += [(c[2], c[3], c[4], c[6]) for c in p.cbs if c[0] == "H"]
        except ref.Unknown:
            return v
        units, rest = split_units(t.out)
        got_units = [u[1] for u in units if u[1].startswith(b"#")]
        got_h = [(h.ci, h.kind, h.seen, h.code) for h in t.handlers if h.fsm == "u"]
        # an event on a command that lines write to prints the current value, which this model does not track (the text, and
        # with it whether the text fits and the handler runs at all): only the queue bookkeeping above is judged for those
        shared_cmd = lambda ci: not cs[ci]["name"].startswith(b"#")
        exp_h = [x for x in exp_h if not shared_cmd(x[0])]
        got_h = [x for x in got_h if not shared_cmd(x[0])]
        if got_h != exp_h:
            v.violation = ("event-handlers", "handler invocations for the accepted events %r: expected %r, observed %r" % (order, exp_h, got_h))
            return v
        if got_units != exp_units:
            v.violation = ("event-units", "units for the accepted events %r: expected %r, observed %r (output %r)" % (order, exp_units, got_units, t.out[-300:]))
            return v
    return v


def expand_samples(t):
    """per-step arrays (processed_u, busy, hold) from the on-change P records"""
    n = t.q["steps"]
    pu, busy, hold = [-1] * n, [0] * n, [0] * n
    cur = (-1, 0, 0)
    idx = 0
    sm = t.samples
    for st in range(n):
        while idx < len(sm) and sm[idx][0] <= st:
            cur = sm[idx][1:]
            idx += 1
        pu[st], busy[st], hold[st] = cur
    return pu, busy, hold


def hold_timeline(t):
    """expected cat_is_hold after every step: HOLD from the step in which a command handler returned HOLD until the step
    in which the first accepted release request is made (cat_hold_exit returning OK, or an event handler returning
    HOLD_EXIT_* while held); the library acts on a request in the same / the next service call, which is the call of
    that step.  Returns (list of bool per step, list of hold windows (start, release_step or None, status))."""
    n = t.q["steps"]
    held = False
    exp = [False] * n
    windows = []
    last_step = 0
    marks = []   # (step, held_after_this_event)
    for k, e in t.events:
        if k == "H":
            if e.fsm == "c" and e.code == S.HOLD and not held:
                held = True
                windows.append([e.step, None, None])
                marks.append((e.step, True))
            elif e.fsm == "u" and e.code in (S.HEX_OK, S.HEX_ERR) and windows and (held or windows[-1][1] == e.step):
                # (a request made in the same step as an earlier one still reaches the library before it acts)
                if held:
                    windows[-1][1] = e.step
                    windows[-1][2] = []
                    marks.append((e.step, False))
                held = False
                windows[-1][2].append(0 if e.code == S.HEX_OK else 1)
        elif k == "A" and e.name == "holdexit":
            if windows and (held or (windows[-1][1] == e.step and not e.insvc)):
                # accepted (the return value is judged by C14); several requests can reach the library before it acts
                if held:
                    windows[-1][1] = e.step
                    windows[-1][2] = []
                    marks.append((e.step, False))
                held = False
                windows[-1][2].append(e.args[0])
    cur = False
    mi = 0
    for st in range(n):
        while mi < len(marks) and marks[mi][0] <= st:
            cur = marks[mi][1]
            mi += 1
        exp[st] = cur
    return exp, windows
