"""Rebuild the world executables from the current working tree of the repository.

The build key is a content hash over cat.c, cat.h, the world sources and the flags, so an edited
tree can never be checked with stale objects."""
import hashlib
import os
import shutil
import subprocess
import sys
from concurrent.futures import ThreadPoolExecutor

VERIF = os.path.dirname(os.path.dirname(os.path.abspath(__file__)))
REPO = os.environ.get("VERIF_REPO", "/repo")
BUILD = os.path.join(VERIF, "build", hashlib.sha256(os.path.realpath(REPO).encode()).hexdigest()[:8])
WORLD = os.path.join(VERIF, "world")

FLAVOURS = {
    # behavioural checks: plain optimised build, asserts on, guard bytes around variables
    "plain": (["gcc", "-std=gnu99", "-O1", "-g", "-DWORLD_GUARD"], []),
    # memory-sensitive checks: exact-size heap blocks under ASan + UBSan, asserts on
    "san": (["clang", "-std=gnu99", "-O1", "-g", "-fsanitize=address,undefined", "-fno-sanitize-recover=undefined",
             "-fno-omit-frame-pointer"], []),
}


def src_hash():
    h = hashlib.sha256()
    for p in [os.path.join(REPO, "src", "cat.c"), os.path.join(REPO, "src", "cat.h")] + sorted(
            os.path.join(WORLD, f) for f in os.listdir(WORLD) if f.endswith((".c", ".h", ".cc"))):
        h.update(p.encode())
        with open(p, "rb") as f:
            h.update(f.read())
    h.update(repr(sorted(FLAVOURS.items())).encode())
    return h.hexdigest()[:16]


def build_dir():
    # workers inherit the directory chosen by the driver, so that editing sources while a check runs cannot split them
    if os.environ.get("VERIF_BUILD_DIR"):
        return os.environ["VERIF_BUILD_DIR"]
    d = os.path.join(BUILD, src_hash())
    os.makedirs(d, exist_ok=True)
    return d


def prune(keep):
    if not os.path.isdir(BUILD):
        return
    for e in os.listdir(BUILD):
        p = os.path.join(BUILD, e)
        if p != keep and os.path.isdir(p):
            shutil.rmtree(p, ignore_errors=True)


def world_path(qcap, flavour):
    return os.path.join(build_dir(), "world_%s_q%d" % (flavour, qcap))


def _compile(cmd, outp):
    tmp = outp + ".tmp%d" % os.getpid()
    r = subprocess.run(cmd + ["-o", tmp], capture_output=True, text=True)
    if r.returncode != 0:
        return outp, r.stderr
    os.replace(tmp, outp)
    return outp, None


def ensure_worlds(wanted):
    """wanted: iterable of (qcap, flavour). Returns dict -> path. Raises RuntimeError on compile failure."""
    d = build_dir()
    prune(d)
    jobs = []
    res = {}
    for qcap, fl in sorted(set(wanted)):
        outp = world_path(qcap, fl)
        res[(qcap, fl)] = outp
        if os.path.exists(outp):
            continue
        cc, extra = FLAVOURS[fl]
        cmd = cc + ["-DCAT_UNSOLICITED_CMD_BUFFER_SIZE=%d" % qcap, "-I" + os.path.join(REPO, "src"), "-I" + WORLD,
                    os.path.join(WORLD, "catworld.c"), os.path.join(WORLD, "shim.c"), os.path.join(REPO, "src", "cat.c")] + extra
        jobs.append((cmd, outp))
    if jobs:
        with ThreadPoolExecutor(max_workers=16) as ex:
            for outp, err in ex.map(lambda j: _compile(*j), jobs):
                if err is not None:
                    raise RuntimeError("world build failed for %s:\n%s" % (outp, err[-4000:]))
    return res


def ensure_custom(name, cmd_builder):
    """build an extra executable (fuzz target, thread world) into the same hashed directory"""
    outp = os.path.join(build_dir(), name)
    if not os.path.exists(outp):
        o, err = _compile(cmd_builder(REPO, WORLD), outp)
        if err is not None:
            raise RuntimeError("build failed for %s:\n%s" % (outp, err[-4000:]))
    return outp


if __name__ == "__main__":
    w = [(q, f) for q in (1, 2, 3, 8) for f in ("plain", "san")]
    print(ensure_worlds(w))
