"""Shared result / statistics types for property modules."""
from . import spec as S


class Result:
    """outcome of running one case through a property's oracle"""
    __slots__ = ("violation", "labels", "nontrivial", "skipped", "runs")

    def __init__(self, violation=None, labels=(), nontrivial=False, skipped=False, runs=1):
        self.violation = violation      # None or (signature, text)
        self.labels = tuple(labels)     # class labels for the histogram
        self.nontrivial = nontrivial    # by the property's stated rule
        self.skipped = skipped          # outside the property's domain (counted, not judged)
        self.runs = runs                # world runs used


def viol(sig, text):
    return Result(violation=(sig, text))


class Stats:
    def __init__(self):
        self.evaluations = 0
        self.skipped = 0
        self.world_runs = 0
        self.nontrivial = set()
        self.hist = {}
        self.samples = {}
        self.extra = {}

    def note(self, case, res, max_samples_per_label=1):
        self.evaluations += 1
        self.world_runs += res.runs
        if res.skipped:
            self.skipped += 1
        for l in res.labels:
            self.hist[l] = self.hist.get(l, 0) + 1
        if res.nontrivial:
            self.nontrivial.add(S.case_hash(case))
            for l in (res.labels or ("nontrivial",)):
                if l not in self.samples and len(self.samples) < 12:
                    self.samples[l] = case

    def to_dict(self):
        return dict(evaluations=self.evaluations, skipped=self.skipped, world_runs=self.world_runs,
                    nontrivial=sorted(self.nontrivial), hist=self.hist,
                    samples={k: S._enc(v) for k, v in self.samples.items()}, extra=self.extra)
