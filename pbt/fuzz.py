"""libFuzzer campaigns (DESIGN 3.4): build a target per ring capacity, run one process per worker with a fresh corpus
directory under /verif/work, collect executions / non-trivial input hashes / crash artifacts."""
import glob
import os
import shutil
import struct
import subprocess
import time
from concurrent.futures import ThreadPoolExecutor
from . import build
from .common import Result

VERIF = build.VERIF
DICT = os.path.join(VERIF, "dict", "at.dict")


def fuzz_bin(target, qcap):
    def cmd(repo, world):
        return ["clang", "-std=gnu99", "-g", "-O1", "-fsanitize=fuzzer,address,undefined", "-fno-sanitize-recover=undefined", "-fno-omit-frame-pointer",
                "-DCAT_UNSOLICITED_CMD_BUFFER_SIZE=%d" % qcap, "-I" + os.path.join(repo, "src"), "-I" + world,
                os.path.join(world, "fuzz_%s.c" % target), os.path.join(world, "shim.c"), os.path.join(repo, "src", "cat.c")]
    return build.ensure_custom("fuzz_%s_q%d" % (target, qcap), cmd)


def prebuild(target, caps):
    with ThreadPoolExecutor(max_workers=4) as ex:
        list(ex.map(lambda q: fuzz_bin(target, q), caps))


def _stats(path):
    ex = nt = 0
    hashes = set()
    try:
        with open(path, "rb") as f:
            head = f.readline().split()
            ex, nt = int(head[1]), int(head[3])
            data = f.read()
            for i in range(0, len(data) - 7, 8):
                hashes.add(struct.unpack_from("<Q", data, i)[0])
    except Exception:
        pass
    return ex, nt, hashes


def campaign(pid, target, caps, seconds, seed, nworkers, max_len=1200, runs=None):
    corpus = os.path.join(VERIF, "corpus", pid)
    work = os.path.join(VERIF, "work", pid, "run%d" % os.getpid())
    shutil.rmtree(work, ignore_errors=True)
    os.makedirs(work)
    procs = []
    t0 = time.time()
    for w in range(nworkers):
        q = caps[w % len(caps)]
        exe = fuzz_bin(target, q)
        cdir = os.path.join(work, "c%d" % w)
        adir = os.path.join(work, "a%d" % w)
        os.makedirs(cdir)
        os.makedirs(adir)
        env = dict(os.environ, FUZZ_STATS=os.path.join(work, "stats%d" % w), ASAN_OPTIONS="detect_leaks=0:abort_on_error=0", UBSAN_OPTIONS="print_stacktrace=1")
        cmd = [exe, cdir] + ([corpus] if os.path.isdir(corpus) and os.listdir(corpus) else []) + [
            "-max_total_time=%d" % seconds] + (["-runs=%d" % runs] if runs else []) + ["-seed=%d" % ((seed * 1000003 + w * 7919) % (2 ** 31 - 1) + 1), "-max_len=%d" % max_len, "-len_control=50",
            "-artifact_prefix=" + adir + "/", "-print_final_stats=1", "-timeout=30", "-rss_limit_mb=3000", "-verbosity=0"]
        if os.path.exists(DICT):
            cmd.append("-dict=" + DICT)
        log = open(os.path.join(work, "log%d" % w), "wb")
        procs.append((w, q, subprocess.Popen(cmd, stdout=log, stderr=subprocess.STDOUT, env=env), adir))
    failures = []
    execs = ntsum = distinct = 0
    for w, q, p, adir in procs:
        p.wait()
        ex, nt, hs = _stats(os.path.join(work, "stats%d" % w))
        execs += ex
        ntsum += nt
        distinct += len(hs)
        for art in sorted(glob.glob(os.path.join(adir, "crash-*")) + glob.glob(os.path.join(adir, "leak-*"))):
            dst_dir = os.path.join(os.environ.get("VERIF_FAIL_DIR", os.path.join(VERIF, "replays")), pid)
            os.makedirs(dst_dir, exist_ok=True)
            dst = os.path.join(dst_dir, "fail-%s-q%d-%s" % (target, q, os.path.basename(art)))
            shutil.copy(art, dst)
            tail = open(os.path.join(work, "log%d" % w), "rb").read()[-2500:].decode(errors="replace")
            sig = "fuzz-crash"
            for key in ("ORACLE VIOLATION", "AddressSanitizer", "runtime error", "Assertion"):
                if key in tail:
                    sig = "fuzz-" + key.split()[0].lower()
                    break
            failures.append(dict(case=None, sig=sig, text=tail, artifact=dst))
    shutil.rmtree(work, ignore_errors=True)
    return dict(evaluations=execs, failures=failures, nontrivial_extra=distinct,
                extra=dict(fuzz_target="world/fuzz_%s.c" % target, fuzz_executions=execs, fuzz_nontrivial_executions=ntsum, fuzz_distinct_nontrivial_inputs=distinct,
                           fuzz_workers=len(procs), fuzz_seconds_per_worker_cap=seconds, fuzz_runs_per_worker=runs, fuzz_ring_capacities=list(caps), fuzz_wall_s=round(time.time() - t0, 1)))


def replay_artifact(path):
    """re-run a saved libFuzzer artifact; the file name carries target and ring capacity: fail-<target>-q<N>-crash-..."""
    base = os.path.basename(path)
    parts = base.split("-")
    target, q = "c03", 1
    try:
        target = parts[1]
        q = int(parts[2][1:])
    except Exception:
        pass
    exe = fuzz_bin(target, q)
    env = dict(os.environ, ASAN_OPTIONS="detect_leaks=0:abort_on_error=0")
    r = subprocess.run([exe, path, "-timeout=60"], capture_output=True, text=True, env=env)
    if r.returncode != 0:
        return Result(violation=("fuzz-artifact", (r.stderr or r.stdout)[-2000:]))
    return Result()
