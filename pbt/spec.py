"""Spec: the JSON-serialisable description of one case, and its flattening into the world's
line protocol (DESIGN.md 3.1, appendix B)."""
import json
import hashlib

# variable types / access / return codes / kinds (mirror cat.h; used by generators and oracles)
INT, UINT, HEX, BHEX, STR = range(5)
RW, RO, WO = range(3)
ERR, DATA_OK, DATA_NEXT, NEXT, OK, HOLD, HEX_OK, HEX_ERR, LIST = -1, 0, 1, 2, 3, 4, 5, 6, 7
KINDS = "wrnt"  # write, read, run, test  (indices 0..3)
# status codes
S_OK, S_BUSY, S_HOLD, S_ERR = 0, 1, 2, -1
S_MUTEX_UNLOCK, S_MUTEX_LOCK, S_FULL, S_NOT_HOLD = -2, -3, -5, -6
# flags
WF_SAMPLE, WF_LINERESET, WF_PROBE, WF_MONVARS, WF_MONBUF, WF_DUMPLF, WF_BRACKET, WF_C01MON = 1, 2, 4, 8, 16, 32, 64, 128
WF_SAMPLE_LOCKED = 256
# action kinds
WA_TRIG, WA_HOLDEXIT, WA_ISFULL, WA_ISBUFFERED, WA_GETPROCESSED, WA_ISBUSY, WA_ISHOLD, WA_SETDIS, WA_SETGDIS, WA_POKE, WA_DUMP = range(1, 12)
# action timing
AT_STEP, AT_LINE, AT_STALL = 0, 1, 2


def mk_var(type=INT, size=1, access=RW, init=b"", name=None, rcb=0, wcb=0, rfail=0, wfail=0):
    return dict(name=name, type=type, size=size, access=access, init=bytes(init), rcb=rcb, wcb=wcb, rfail=rfail, wfail=wfail)


def mk_cmd(name, h="", vars=None, desc=None, need_all=0, only_test=0, disable=0, implicit=0, scripts=None):
    return dict(name=bytes(name), desc=desc, need_all=need_all, only_test=only_test, disable=disable,
                implicit=implicit, h=h, vars=list(vars or []), scripts=dict(scripts or {}))


def mk_step(code=OK, edit=0, tag=b"", act=0, a1=0, a2=0, a3=None):
    return dict(code=code, edit=edit, tag=bytes(tag), act=act, a1=a1, a2=a2, a3=a3)


def mk_spec(cmds=None, groups=None, input=b"", qcap=1, shared=True, bufsz=128, ubufsz=0, rs=None, ws=None,
            actions=None, mutex=None, flags=0):
    if groups is None:
        groups = [dict(name=None, disable=0, cmds=list(cmds or []))]
    return dict(qcap=qcap, shared=shared, bufsz=bufsz, ubufsz=ubufsz, groups=groups, input=bytes(input),
                rs=list(rs or []), ws=list(ws or []), actions=list(actions or []), mutex=mutex, flags=flags)


def ccap(s):
    return s["bufsz"] >> 1 if s["shared"] else s["bufsz"]


def ucap(s):
    return s["bufsz"] >> 1 if s["shared"] else s["ubufsz"]


def all_cmds(s):
    return [c for g in s["groups"] for c in g["cmds"]]


def cmd_disabled(s):
    """per command: disabled by own flag or group flag"""
    return [bool(g["disable"]) or bool(c["disable"]) for g in s["groups"] for c in g["cmds"]]


def group_of(s):
    r = []
    for gi, g in enumerate(s["groups"]):
        r += [gi] * len(g["cmds"])
    return r


def hx(b):
    return bytes(b).hex() if b else "-"


def hxn(b):
    return "~" if b is None else hx(b)


def budget_for(s):
    """deterministic upper bound on the number of cat_service calls the case may legitimately need"""
    cs = all_cmds(s)
    n = len(cs)
    cc, uc = ccap(s), ucap(s)
    nv = max([len(c["vars"]) for c in cs] + [1])
    maxscr = max([len(st) for c in cs for st in c["scripts"].values()] + [0])
    nlines = s["input"].count(b"\n") + 1
    per_line = 4 * n + (maxscr + 2) * (nv + 3 * cc + 24) + n * (8 + 4 * (cc + 6))
    nev = sum(1 for a in s["actions"] if a[2] == WA_TRIG) + sum(
        1 for c in cs for st in c["scripts"].values() for x in st if x.get("act") == WA_TRIG)
    per_ev = (maxscr + 2) * (nv + 3 * uc + 24)
    refusals = sum(s["rs"][1::2]) + sum(s["ws"][1::2])
    last_step = max([a[1] for a in s["actions"] if a[0] == AT_STEP] + [0])
    nstall = sum(1 for a in s["actions"] if a[0] == AT_STALL) + 1
    stall = stall_for(s)
    return 2000 + 4 * (len(s["input"]) * (n + 3) + nlines * per_line + nev * (per_ev + per_line) + refusals) + last_step + nstall * (stall + 8) * 2


def stall_for(s):
    return 8 * len(all_cmds(s)) + 64


def slots(s):
    """the command table as the library sees it: one (command index, group index) per registration, in registration
    order.  A group with "alias": k registers the command array of group k a second time (same command objects)."""
    first, n = [], 0
    for g in s["groups"]:
        first.append(n)
        n += len(g["cmds"])
    r = []
    for gi, g in enumerate(s["groups"]):
        src = g.get("alias")
        k = gi if src is None else src
        r += [(first[k] + j, gi) for j in range(len(s["groups"][k]["cmds"]))]
    return r


def to_protocol(s, budget=None, stall=None):
    o = ["BUF %d %d %d" % (1 if s["shared"] else 0, s["bufsz"], s["ubufsz"])]
    for g in s["groups"]:
        if g.get("alias") is not None:
            o.append("GALIAS %s %d %d" % (hxn(g.get("name")), 1 if g["disable"] else 0, g["alias"]))
            continue
        o.append("GROUP %s %d" % (hxn(g.get("name")), 1 if g["disable"] else 0))
        for c in g["cmds"]:
            hm = sum(1 << i for i, k in enumerate(KINDS) if k in c["h"])
            o.append("CMD %s %s %d %d %d %d %d" % (hx(c["name"]), hxn(c["desc"]), c["need_all"], c["only_test"], c["disable"], c["implicit"], hm))
            for v in c["vars"]:
                o.append("VAR %s %d %d %d %s %d %d %d %d" % (hxn(v["name"]), v["type"], v["size"], v["access"], hx(v["init"]), v["rcb"], v["wcb"], v["rfail"], v["wfail"]))
            for key, steps in c["scripts"].items():
                if not steps:
                    continue
                fsm, kind = int(key[0]), KINDS.index(key[1])
                o.append("SCRIPT %d %d %d " % (fsm, kind, len(steps)) + " ".join(
                    "%d %d %s %d %d %d %s" % (st["code"], st["edit"], hx(st["tag"]) if st["tag"] else "~", st["act"], st["a1"], st["a2"], hxn(st.get("a3"))) for st in steps))
    o.append("INPUT " + hx(s["input"]))
    if s["rs"]:
        o.append("RSCHED " + " ".join(map(str, s["rs"])))
    if s["ws"]:
        o.append("WSCHED " + " ".join(map(str, s["ws"])))
    for a in s["actions"]:
        o.append("ACTION %d %d %d %d %d %s" % (a[0], a[1], a[2], a[3], a[4], hxn(a[5] if len(a) > 5 else None)))
    if s.get("mutex") is not None:
        m = s["mutex"]
        o.append("MUTEX " + " ".join(map(str, m.get("lockfail", []))) + " | " + " ".join(map(str, m.get("unlockfail", []))))
    o.append("FLAGS %d" % s["flags"])
    o.append("RUN %d %d" % (budget if budget is not None else budget_for(s), stall if stall is not None else stall_for(s)))
    return "\n".join(o) + "\n"


# ---------- JSON (bytes <-> "b:<latin-1>") ----------

def _enc(x):
    if isinstance(x, (bytes, bytearray)):
        return "b:" + bytes(x).decode("latin-1")
    if isinstance(x, dict):
        return {k: _enc(v) for k, v in x.items()}
    if isinstance(x, (list, tuple)):
        return [_enc(v) for v in x]
    return x


def _dec(x):
    if isinstance(x, str) and x.startswith("b:"):
        return x[2:].encode("latin-1")
    if isinstance(x, dict):
        return {k: _dec(v) for k, v in x.items()}
    if isinstance(x, list):
        return [_dec(v) for v in x]
    return x


def to_json(case, **kw):
    return json.dumps(_enc(case), sort_keys=True, **kw)


def from_json(text):
    return _dec(json.loads(text))


def case_hash(case):
    return int.from_bytes(hashlib.blake2b(to_json(case).encode(), digest_size=8).digest(), "big")


def clone(case):
    return _dec(json.loads(json.dumps(_enc(case))))
