"""C02 - the invoked handler is the one the name and the suffix select (DESIGN 5, C02).

Oracle: per input line, the (command, callback kind) sequence observed is compared with
Resolver + LineSyntax + Availability.  Nothing else (argument values, response text) is compared here."""
from .. import spec as S, gen as G, ref
from ..common import Result

ID = "C02"
LEVEL = "exploration"
WORLDS = [(1, "plain")]
BUDGET = {"quick": dict(cases=2000), "thorough": dict(cases=60000)}
MIN_NONTRIVIAL = {"quick": 1500, "thorough": 20000}
BLOB = (400, 2600)
RULE = ("Hypothesis byte-backed generator: tables of 1-300 commands (weighted 1-12 / 13-40 / 100-300) in 1-4 groups, names over "
        "the full alphabet A-Z a-z 0-9 + # $ @ _ % & built from stems (prefix relations, duplicates, case variants, typed names with a "
        "character outside the alphabet, a/z/A/Z over-represented), disabled commands and groups, implicit-write commands; "
        "one case in eight registers one command array through two groups, exactly one of them enabled (resolution is per registration); tables of 255-258 commands sharing one prefix (candidate counter), implicit-write commands with equal non-implicit duplicates in both orders; 4-8 lines per case typed as exact / other case / every proper prefix / +1 char / substitution / random name x "
        "suffix none,?,=args,=? ; an enumerated sweep of all registration orders of every <=4-command table over the +T/+TA/+TB/+TAB family (upper/lower case, first command disabled) x 8 typed names x 4 suffixes; command capacity from exactly ceil(n/4) upward. A case is non-trivial if some line's typed "
        "name is a prefix of >=2 enabled names, or equals one name while being a proper prefix of another, or the target has "
        "index >=4 in a table of >4 commands, or letter case differs between typed and registered name; distinct by case hash.")
ASSUMPTIONS = ["all handler scripts return OK at once (invocation counts are C10's)",
               "argument tails are never valid commands (so a missing drain, C01, cannot masquerade as a wrong dispatch)",
               "an implicit-write command with an equal non-implicit duplicate: WRITE as soon as the typed name equals the implicit-write command, dispatched to the first equal name in registration order (the statement's wording; DESIGN C.6)",
               "'=?' on a command with a write handler but neither test handler nor variables is a WRITE with argument '?' (cat.h:174-178)"]
TECHNIQUE = "Hypothesis property-based testing: generated tables x typed names x suffixes, differential against an independent table-lookup reference (Resolver/LineSyntax)"
LEVEL_TEXT = ("Generated-input search with an explicit reference model of name resolution: the callbacks fired per line (command identity "
              "and kind) must equal what the registration-order lookup prescribes. Explores large tables (bit lanes of the packed match "
              "state), case folding boundaries and ambiguity; evidence, not proof.")
LEVEL_NOTE = "Trusted: world harness, the Python Resolver/LineSyntax (cross-checked against the implementation on 10^5 random cases), Hypothesis."
DESIGN_REF = "DESIGN.md section 5 C02"

ALPHA = G.NAME_ALPHA
EDGE = b"azAZ"


def _name(d, stems):
    base = bytearray(d.pick(stems))
    for _ in range(d.weighted([(4, 0), (4, 1), (3, 2), (1, 4)])):
        base.append(d.pick(EDGE) if d.chance(1, 3) else d.pick(ALPHA))
    # (registered names stay inside the name alphabet the library documents: which further characters a typed name may contain is
    #  not fixed by the statement - a harmless change that admits '!' '*' '-' ... made a name registered with such a character
    #  reachable, DESIGN C.16; typed names still contain characters outside the alphabet)
    d.unlikely(1, 20)
    return bytes(base[:10]) or b"a"


def _typed(d, names):
    nm = d.pick(names)
    cls = d.weighted([(5, "exact"), (4, "case"), (5, "prefix"), (2, "plus"), (2, "subst"), (1, "random")])
    if cls == "exact":
        return nm
    if cls == "case":
        return G.up_or_low(d, nm)
    if cls == "prefix":
        return G.up_or_low(d, nm[:d.rng(1, max(1, len(nm) - 1))]) if d.below(2) else nm[:d.rng(1, max(1, len(nm) - 1))]
    if cls == "plus":
        return nm + bytes([d.pick(EDGE + b"09+")])
    if cls == "subst":
        p = d.below(len(nm))
        return nm[:p] + bytes([d.pick(EDGE) if d.below(2) else d.pick(ALPHA)]) + nm[p + 1:]
    return bytes(d.pick(ALPHA) for _ in range(d.rng(1, 4)))


def _mk_cmd(d, nm):
    h = "wrnt" if d.chance(3, 4) else "".join(k for k in "wrnt" if d.below(2))
    vs = []
    for _ in range(d.weighted([(5, 0), (3, 1), (1, 2)])):
        vs.append(S.mk_var(S.INT, 1, d.pick([S.RW, S.RW, S.RO, S.WO]), b"\x01", rcb=1, wcb=1))
    c = S.mk_cmd(nm, h, vs)
    if d.unlikely(1, 14):
        c["disable"] = 1
    if d.unlikely(1, 16):
        c["only_test"] = 1
    if d.unlikely(1, 14):
        c["implicit"] = 1
        c["h"] = "w" if "w" in c["h"] else ""
    return c


def gen_many_candidates(d):
    """k commands sharing one prefix with k around 256 (the candidate counter must not wrap), typed as that prefix"""
    k = d.pick([255, 256, 257, 258, 257, 257])
    pre = d.pick([b"+C", b"+", b"#x", b"Az"])
    names = [pre + b"%03d" % i for i in range(k)]
    cmds = [S.mk_cmd(nm, "wrnt") for nm in names]
    extra = [S.mk_cmd(b"ZED", "wrnt"), S.mk_cmd(b"&Q", "n")]
    pos = d.below(3)
    if pos == 0:
        cmds = cmds + extra
    elif pos == 1:
        cmds = extra + cmds
    else:
        cmds = cmds[:100] + extra + cmds[100:]
    inp = bytearray()
    for _ in range(d.rng(2, 4)):
        t = d.pick([pre, pre + b"0", pre + b"00", pre + b"1", pre + b"25", G.up_or_low(d, pre), b"ZE", pre + b"000"])
        inp += b"AT" + t + d.pick([b"", b"?", b"=1", b"=?"]) + b"\n"
    n = len(cmds)
    cc = (n + 3) // 4 + d.pick([0, 1, 9])
    return dict(spec=S.mk_spec(cmds, input=bytes(inp), shared=False, bufsz=cc, ubufsz=8))


def gen(d, tier):
    if d.below(40) == 0:
        return gen_many_candidates(d)
    stems = [d.pick(G.STEMS + [b"a", b"z", b"Az", b"+zA"]) for _ in range(d.rng(1, 3))]
    ncore = d.rng(1, 5)
    core = [_name(d, stems) for _ in range(ncore)]
    if d.chance(1, 3) and len(core) >= 2:
        core[1] = core[0][:max(1, len(core[0]) - 1)] if d.below(2) else G.up_or_low(d, core[0])
    typed = []
    for _ in range(d.rng(4, 8)):
        t = _typed(d, core)
        sfx = d.pick([b"", b"?", b"=", b"=?"])
        args = b""
        if sfx == b"=":
            args = d.pick([b"1", b"", b"0", b"5,6", b"x", b"?x", b"-1"])
        typed.append((t, sfx + args))
    # bulk of the table
    nbulk = d.weighted([(6, d.below(8)), (3, d.rng(8, 36)), (2, d.rng(96, 296))])
    cmds = [_mk_cmd(d, nm) for nm in core]
    for _ in range(nbulk):
        nm = _name(d, stems) if d.chance(2, 3) else bytes(d.pick(ALPHA) for _ in range(d.rng(1, 5)))
        c = S.mk_cmd(nm, "wrnt") if nbulk > 40 else _mk_cmd(d, nm)
        cmds.insert(d.below(len(cmds) + 1), c)
    if d.unlikely(1, 6) and cmds:
        # an implicit-write command with an equal (other case) non-implicit duplicate, in either registration order
        src = d.pick(cmds)
        dup = S.mk_cmd(G.up_or_low(d, src["name"]), "w" if not src["implicit"] else "wrnt", [])
        dup["implicit"] = 0 if src["implicit"] else 1
        cmds.insert(d.below(len(cmds) + 1), dup)
    groups = G.g_groups(d, cmds, maxgroups=4)
    n = len(cmds)
    if d.unlikely(1, 8) and G.add_alias(d, groups):
        n = len(S.slots(dict(groups=groups)))      # one command array registered through two groups
    need = (n + 3) // 4
    cc = max(6, need) if d.chance(1, 3) else max(6, need) + d.pick([0, 1, 2, 7, 20, 40])
    inp = bytearray()
    for t, rest in typed:
        at = d.weighted([(6, b"AT"), (2, b"at"), (1, b"aT")])
        inp += G.add_crs(d, at + t + rest)
    s = S.mk_spec(groups=groups, input=bytes(inp), shared=(d.below(2) == 0), bufsz=cc, ubufsz=8, rs=G.g_sched(d, 6), ws=G.g_sched(d, 6))
    if s["shared"]:
        s["bufsz"] = 2 * cc
    return dict(spec=s)


def nontrivial_line(names, dis, typed_raw, target):
    t = ref.upname(typed_raw)
    if not t:
        return False
    pc = ref.prefix_candidates(names, dis, t)
    if len(pc) >= 2:
        return True
    if target is not None:
        if len(names) > 4 and target >= 4:
            return True
        if names[target][:len(typed_raw)] != typed_raw:
            return True
    return False


def run(case, W):
    s = case["spec"]
    t = W.run(s, "plain")
    if not t.ok:
        return Result(violation=("crash", str(t.crash)))
    if t.reason != "quiescent":
        return Result(violation=("no-quiescence", t.reason))
    m = ref.Model(s)
    lines, tail = ref.split_lines(s["input"])
    # observed callbacks per line segment
    obs = [[] for _ in range(len(lines) + 2)]
    for k, e in t.events:
        if k == "H":
            obs[min(e.lf, len(lines) + 1)].append(("H", e.ci, e.kind))
        elif k == "V":
            obs[min(e.lf, len(lines) + 1)].append(("V", e.ci, e.kind))
    seg = t.out_by_line(len(lines))
    if obs[0]:
        return Result(violation=("early-callback", "callback before any line was terminated: %r" % obs[0]))
    nt = False
    labels = set()
    dis = m.dis()
    for i, raw in enumerate(lines):
        try:
            p = m.line(raw)
        except ref.Unknown:
            return Result(skipped=True, labels=["unknown-domain"])
        exp = [(c[0], c[2], c[3]) if c[0] == "H" else ("V", c[1], c[3]) for c in p.cbs]
        got = obs[i + 1]
        if got != exp:
            want = "none" if p.target is None else "%d(%r) form %s" % (p.target, m.names[p.target], p.form)
            return Result(violation=("dispatch", "line %r: resolver selects %s; expected callbacks %r, observed %r" % (raw, want, exp, got)))
        if not p.blank and p.target is None and p.typed and not seg[i + 1].strip().endswith(b"ERROR"):
            return Result(violation=("unresolved-not-error", "line %r resolves to nothing but the answer is %r" % (raw, seg[i + 1])))
        if p.typed and nontrivial_line(m.names, dis, p.typed, p.target):
            nt = True
        if p.target is not None:
            labels.add("resolved")
            if p.cbs:
                labels.add("callback-fired")
            if m.cs[p.target]["implicit"]:
                labels.add("implicit-write")
        elif p.typed:
            labels.add("unresolved")
            if len(ref.prefix_candidates(m.names, dis, p.typed)) >= 2:
                labels.add("ambiguous")
    n = len(m.cs)
    labels.add("table<=4" if n <= 4 else ("table<=40" if n <= 40 else "table>=100"))
    if S.ccap(s) == max(6, (n + 3) // 4):
        labels.add("capacity-minimal")
    if any(dis):
        labels.add("has-disabled")
    if any(g.get("alias") is not None for g in s["groups"]):
        labels.add("aliased-group")
    return Result(labels=sorted(labels), nontrivial=nt)


def _orders():
    """every registration order of every <= 4-command table over the +T/+TA/+TB/+TAB family (handlers wrnt, one variable) x
    typed prefix x suffix; argument tails are not valid commands"""
    import itertools
    fam = [b"+T", b"+TA", b"+TB", b"+TAB"]
    for r in range(1, 5):
        for sub in itertools.combinations(fam, r):
            for order in itertools.permutations(sub):
                for variant in (0, 1, 2):
                    cmds = [S.mk_cmd(nm if variant != 1 else nm.lower(), "wrnt", [S.mk_var(S.INT, 1, S.RW, b"\x01", rcb=1, wcb=1)]) for nm in order]
                    if variant == 2:
                        cmds[0]["disable"] = 1
                    inp = b""
                    for ty in (b"+", b"+T", b"+TA", b"+TB", b"+TAB", b"+TAX", b"+t", b"+tA"):
                        for sf in (b"", b"?", b"=5", b"=?"):
                            inp += b"AT" + ty + sf + b"\n"
                    yield dict(spec=S.mk_spec(cmds, input=inp, bufsz=64))


def enumerations(tier):
    yield "registration-orders", _orders()


def minimise(case, W, sig):
    from ..minimise import minimise_spec

    def still(sp):
        if (len(S.slots(sp)) + 3) // 4 > S.ccap(sp):
            return False
        r = run(dict(spec=sp), W)
        return r.violation is not None and r.violation[0] == sig
    return dict(spec=minimise_spec(case["spec"], still))
