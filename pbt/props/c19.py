"""C19 - TEST response and command list are faithful to the descriptor (DESIGN 5, C19)."""
from .. import spec as S, gen as G, ref
from ..spec import INT, UINT, HEX, BHEX, STR, RW, RO, WO
from ..common import Result
from ..trace import split_units

ID = "C19"
LEVEL = "exploration"
WORLDS = [(1, "plain")]
BUDGET = {"quick": dict(cases=1600), "thorough": dict(cases=45000)}
MIN_NONTRIVIAL = {"quick": 2000, "thorough": 30000}
BLOB = (400, 1600)
RULE = ("Hypothesis byte-backed generator: tables of 2-7 commands in 1-3 groups with 0-5 variables each (5 types x sizes incl. unsupported 3/8 x "
        "3 access modes x named/unnamed, variable names of up to 40 characters), one case in ten with a command array registered through two groups (one of them disabled), all handler subsets, only_test / disable / group-disable / implicit_write (without variables) in any "
        "combination, description present or not, plus a lister command returning PRINT_CMD_LIST_OK. Run A: shared (even and odd size) or separate buffers, capacity chosen -2..+2 around the "
        "length of a list line or TEST text (or random): the command list, every AT<cmd>=? and one unsolicited TEST event are compared byte-for-byte "
        "with the Formatter (ERROR instead of a truncated line). Run B: generous capacity: the list is compared again and every request form of every "
        "command reachable by its full name is submitted with benign arguments: advertised forms must engage the command, non-advertised RUN/READ/WRITE "
        "forms must be refused with ERROR and no callback. Run C: a three-part '=?' answer (test handler returns DATA_NEXT twice) while an unsolicited TEST of another described command is triggered at a generated step: both texts, with their descriptions, must be complete. Non-trivial = a command with >=1 variable together with one of {only_test, disabled command, "
        "disabled group, missing handler}, or a capacity within 2 of a text length; distinct by case hash.")
ASSUMPTIONS = ["implicit-write commands that own variables are not generated (excepted by the statement)",
               "commands shadowed by a duplicate name or by an implicit-write prefix are skipped in the dispatcher sub-check (counted)",
               "a non-advertised '=?' is asserted only when the command has no write handler (cat.h:174-178)",
               "names, descriptions and variable names contain no CR/LF"]
TECHNIQUE = "Hypothesis property-based testing; oracle = descriptor-derived Formatter text compared byte-exactly, and a metamorphic list-vs-dispatcher consistency check"
LEVEL_TEXT = ("Generated-input search over descriptors: the '=?' text and the command list are compared byte-for-byte with a text derived from the descriptor, "
              "capacities are constructed around every text length, and every listed form is fed back to the dispatcher.")
LEVEL_NOTE = "Trusted: world harness, Formatter/Availability/Resolver reference pieces, Hypothesis."
DESIGN_REF = "DESIGN.md section 5 C19"


def g_var19(d):
    t = d.pick([INT, UINT, HEX, BHEX, STR])
    if t in (INT, UINT, HEX):
        sz = d.weighted([(5, 1), (5, 2), (5, 4), (1, 3), (1, 8)])
    else:
        sz = d.rng(1, 10)
    init = bytes(x for x in d.bytes(sz) if x not in (10, 13)) if t == STR else d.bytes(sz)
    return S.mk_var(t, sz, d.pick([RW, RO, WO]), init, name=(d.pick([b"x", b"val", b"speed", b"a_b", b"N1", b"signal_quality_dbm", b"x" * d.rng(15, 40), b"channel_bandwidth_selector_khz"]) if d.chance(2, 3) else None))


def benign_arg(v):
    t = v["type"]
    if t in (INT, UINT):
        return b"1"
    if t == HEX:
        return b"0x1"
    if t == BHEX:
        return b"AB"
    return b'"a"' if v["size"] >= 2 else b'""'


def gen(d, tier):
    n = d.rng(1, 6)
    cmds = []
    used = set()
    for _ in range(n):
        nm = G.g_name(d)
        if ref.upname(nm) in used or ref.upname(nm) == b"+LST":
            nm = nm + b"%d" % len(cmds)
        used.add(ref.upname(nm))
        h = "".join(k for k in "wrnt" if d.chance(1, 2))
        vs = [g_var19(d) for _ in range(d.weighted([(3, 0), (3, 1), (2, 2), (1, 3), (1, 5)]))]
        c = S.mk_cmd(nm, h, vs, desc=(d.pick([b"description", b"d", b"Some longer help text, with comma"]) if d.chance(1, 3) else None))
        if d.unlikely(1, 6):
            c["only_test"] = 1
        if d.unlikely(1, 7):
            c["disable"] = 1
        if d.unlikely(1, 6):
            c["need_all"] = 1
        if not vs and d.unlikely(1, 6):
            c["implicit"] = 1
            c["h"] = "w" if "w" in c["h"] else ""
        if "t" in c["h"]:
            c["scripts"]["0t"] = [S.mk_step(S.DATA_OK)]
            c["scripts"]["1t"] = [S.mk_step(S.DATA_OK)]
        cmds.append(c)
    lister = S.mk_cmd(b"+LST", "n", [], scripts={"0n": [S.mk_step(S.LIST)] * 4})
    cmds.insert(d.below(len(cmds) + 1), lister)
    G.fix_implicit_duplicates(cmds)
    groups = G.g_groups(d, cmds, maxgroups=3, disable=False)
    for g in groups:
        if not any(c is lister for c in g["cmds"]) and d.unlikely(1, 5):
            g["disable"] = 1
    if d.unlikely(1, 10):
        G.add_alias(d, groups)      # one command array registered through two groups, one of the two disabled: listed and answered once
    # text lengths
    tmp = S.mk_spec(groups=groups, bufsz=2000)
    m0 = ref.Model(tmp)
    lens = [len(x[2]) for x in ref.cmd_list_lines([m0.cs[i] for i, g in m0.slots], m0.slot_dis(), b"\n")]
    for i in range(len(m0.cs)):
        tt = ref.test_text(m0.cs[i], b"\n")
        if tt is not None:
            lens.append(len(tt))
    if d.chance(2, 3):
        cc = max(6, d.pick(lens) + d.pick([0, 1, -1, 2, -2, 3]))
    else:
        cc = d.pick([8, 12, 16, 24, 32, 48, 64, 100, 200])
    ev_cmd = d.below(len(cmds))
    crlf = d.below(2)
    return dict(groups=groups, cc=cc, shared=d.below(2), ev_cmd=ev_cmd, crlf=crlf, ucc=max(0, d.pick(lens) + d.pick([0, 1, -1, 2, 30])), odd=d.below(2), ev_step=d.pick([0, 5, 12, 20, 28, 36, 45, 60, 80]))


def spec_a(case):
    gs = case["groups"]
    cs = [c for g in gs for c in g["cmds"]]
    nl = b"\r\n" if case["crlf"] else b"\n"
    inp = b"AT+LST" + nl
    for c in cs:
        inp += b"AT" + c["name"] + b"=?" + nl
    nlines = len(cs) + 1
    cc = case["cc"]
    actions = [[S.AT_LINE, nlines, S.WA_TRIG, case["ev_cmd"], 1, None]]
    if case["shared"]:
        return S.mk_spec(groups=S.clone(gs), input=inp, shared=True, bufsz=2 * cc + (1 if case.get("odd") else 0), actions=actions)
    return S.mk_spec(groups=S.clone(gs), input=inp, shared=False, bufsz=cc, ubufsz=case["ucc"], actions=actions)


def probes(case):
    cs = [c for g in case["groups"] for c in g["cmds"]]
    out = []
    for i, c in enumerate(cs):
        if c["name"] == b"+LST":
            continue
        args = b",".join(benign_arg(v) for v in c["vars"]) if c["vars"] else b"1"
        for form, ln in (("n", b"AT" + c["name"]), ("r", b"AT" + c["name"] + b"?"), ("w", b"AT" + c["name"] + b"=" + args), ("t", b"AT" + c["name"] + b"=?")):
            out.append((i, form, ln))
    return out


def spec_b(case):
    gs = case["groups"]
    inp = b"AT+LST\n" + b"".join(ln + b"\n" for _, _, ln in probes(case))
    return S.mk_spec(groups=S.clone(gs), input=inp, shared=False, bufsz=400, ubufsz=8)


def spec_c(case):
    """run C: a '=?' request answered in several parts (test handler returns DATA_NEXT) while an unsolicited TEST of another,
    described command is triggered at a generated step: each state machine's text must still be complete"""
    cs = [c for g in case["groups"] for c in g["cmds"]]
    ev = [i for i, c in enumerate(cs) if c["desc"] is not None and c["name"] != b"+LST"]
    ln = [i for i, c in enumerate(cs) if "t" in c["h"] and c["name"] != b"+LST" and not c["implicit"]]
    if not ev or not ln:
        return None
    e, l = ev[case["ev_cmd"] % len(ev)], ln[case["ev_cmd"] % len(ln)]
    gs = S.clone(case["groups"])
    cs2 = [c for g in gs for c in g["cmds"]]
    cs2[l]["scripts"]["0t"] = [S.mk_step(S.DATA_NEXT), S.mk_step(S.DATA_NEXT), S.mk_step(S.DATA_OK)]
    for g in gs:
        g["disable"] = 0
    cs2[l]["disable"] = 0
    nl = b"\r\n" if case["crlf"] else b"\n"
    s = S.mk_spec(groups=gs, input=b"AT" + cs2[l]["name"] + b"=?" + nl, shared=False, bufsz=600, ubufsz=600,
                  actions=[[S.AT_STEP, case.get("ev_step", 0), S.WA_TRIG, e, 1, None]])
    return s, e, l


def compare_lines(s, t, label, upto=None):
    """byte-exact comparison of every line's response with the Model; returns violation or None"""
    m = ref.Model(s)
    lines, tail = ref.split_lines(s["input"])
    seg = t.out_by_line(len(lines))
    preds = []
    for i, raw in enumerate(lines):
        try:
            p = m.line(raw)
        except ref.Unknown:
            if upto is None or i < upto:
                raise
            p = ref.LinePred()       # outside what the statements define (e.g. a READ after a rejected buffer WRITE): not judged
        preds.append(p)
        if upto is not None and i >= upto:
            continue
        if seg[i + 1][:len(p.out)] != bytes(p.out) or (i + 1 < len(lines) and seg[i + 1] != bytes(p.out)):
            kind = "list-text" if raw.startswith(b"AT+LST") else "test-text"
            return (kind, "%s, capacity %d: line %r must be answered %r, got %r" % (label, S.ccap(s), raw, bytes(p.out), seg[i + 1])), preds
    return None, preds


def run(case, W):
    labels = set()
    # ---- run A: tight capacity, texts
    sa = spec_a(case)
    if (len(S.all_cmds(sa)) + 3) // 4 > S.ccap(sa):
        return Result(skipped=True)
    ta = W.run(sa, "plain")
    for t in (ta,):
        if not t.ok:
            return Result(violation=("crash", str(t.crash)))
        if t.reason != "quiescent":
            return Result(violation=("no-quiescence", t.reason))
    try:
        v, preds = compare_lines(sa, ta, "run A")
    except ref.Unknown:
        return Result(skipped=True, labels=["unknown-domain"])
    if v:
        return Result(violation=v, runs=1)
    # the unsolicited TEST event after the last line
    lines_a = ref.split_lines(sa["input"])[0]
    seg = ta.out_by_line(len(lines_a))
    ev_out = seg[len(lines_a)][len(bytes(preds[-1].out)):]
    trig = [a for a in ta.apis if a.name == "trig"]
    mm = ref.Model(sa)
    pe = mm.event(case["ev_cmd"], 1, b"\n")
    pe_crlf = ref.Model(sa).event(case["ev_cmd"], 1, b"\r\n")
    if trig and trig[0].result == 0:
        # the newline style of an event unit is not fixed by any statement (C11 allows LF or CRLF; C20 speaks of command responses)
        if ev_out != bytes(pe.out) and ev_out != bytes(pe_crlf.out):
            return Result(violation=("event-test-text", "unsolicited TEST of command %d with capacity %d: expected %r, got %r" % (case["ev_cmd"], S.ucap(sa), bytes(pe.out), ev_out)), runs=1)
        labels.add("event-test-emitted" if pe.out else "event-test-silent")
    cc = S.ccap(sa)
    near = False
    for p in preds:
        if p.listed:
            labels.add("list-ok" if p.result == b"OK" else "list-error")
        elif p.form == "t" and p.target is not None:
            labels.add("test-ok" if p.result == b"OK" else "test-error")
    m0 = ref.Model(sa)
    lens = [len(x[2]) for x in ref.cmd_list_lines([m0.cs[i] for i, g in m0.slots], m0.slot_dis(), b"\r\n" if case["crlf"] else b"\n")]
    for c in m0.cs:
        tt = ref.test_text(c, b"\r\n" if case["crlf"] else b"\n")
        if tt is not None:
            lens.append(len(tt))
    if any(abs(L - cc) <= 2 for L in lens):
        near = True
        labels.add("capacity-near-text")
    # ---- run B: generous capacity, list again and the dispatcher consistency
    sb = spec_b(case)
    tb = W.run(sb, "plain")
    if not tb.ok:
        return Result(violation=("crash", str(tb.crash)), runs=2)
    if tb.reason != "quiescent":
        return Result(violation=("no-quiescence", tb.reason), runs=2)
    try:
        v, predb = compare_lines(sb, tb, "run B", upto=1)
    except ref.Unknown:
        return Result(skipped=True, labels=["unknown-domain"], runs=2)
    if v:
        return Result(violation=v, runs=2)
    lines_b = ref.split_lines(sb["input"])[0]
    segb = tb.out_by_line(len(lines_b))
    cbs = [[] for _ in range(len(lines_b) + 2)]
    for h in tb.handlers:
        cbs[min(h.lf, len(lines_b) + 1)].append(h.ci)
    for x in tb.varcbs:
        cbs[min(x.lf, len(lines_b) + 1)].append(x.ci)
    mb = ref.Model(sb)
    dis = mb.dis()
    skipped = 0
    for j, (i, form, ln) in enumerate(probes(case)):
        li = j + 1
        p = predb[li]
        c = mb.cs[i]
        if dis[i]:
            continue
        if p.target != i or p.form != form:
            skipped += 1
            continue
        if any(v["type"] in (INT, UINT, HEX) and v["size"] not in (1, 2, 4) for v in c["vars"]) and form in "rwt":
            skipped += 1
            continue
        adv = form in ref.forms_available(c)
        out = segb[li + 1]
        units, rest = split_units(out)
        engaged = (i in cbs[li + 1]) or any(u[1] not in (b"OK", b"ERROR") for u in units) or out.endswith(b"\nOK\n")
        if adv and not engaged:
            return Result(violation=("advertised-refused", "command %r lists form %r but %r is answered %r with no callback" % (c["name"], form, ln, out)), runs=2)
        if not adv:
            if form == "t" and "w" in c["h"]:
                continue
            if (i in cbs[li + 1]) or not out.endswith(b"\nERROR\n") or len(units) != 1:
                return Result(violation=("unadvertised-accepted", "command %r does not list form %r but %r is answered %r (callbacks of commands %r)" % (c["name"], form, ln, out, cbs[li + 1])), runs=2)
        labels.add("probe-advertised" if adv else "probe-refused")
    if skipped:
        labels.add("probes-skipped-shadowed")
    # ---- run C: texts stay complete when both state machines format '=?' answers at the same time
    runs = 2
    sc = spec_c(case)
    if sc is not None:
        import re
        s3, e, l = sc
        t3 = W.run(s3, "plain")
        runs = 3
        if not t3.ok:
            return Result(violation=("crash", str(t3.crash)), runs=3)
        if t3.reason != "quiescent":
            return Result(violation=("no-quiescence", t3.reason), runs=3)
        trig = [a for a in t3.apis if a.name == "trig"]
        m3 = ref.Model(s3)
        NL = b"(?:\r\n|\n)"
        expect = {}
        ce, cl = m3.cs[e], m3.cs[l]
        fe = ref.test_text(dict(ce, desc=None), b"\n")
        fl = ref.test_text(dict(cl, desc=None), b"\n")
        if trig and trig[0].result == 0 and fe is not None and "t" not in ce["h"]:
            # (with a test handler of its own the event's emission depends on that handler's script)
            k = (fe, ce["desc"])
            expect[k] = expect.get(k, 0) + 1
        elif trig and trig[0].result == 0 and "t" in ce["h"]:
            expect = None
        try:
            reaches = ref.Model(s3).line(ref.split_lines(s3["input"])[0][0]).target == l      # (duplicates / implicit prefixes may shadow it)
        except ref.Unknown:
            reaches = False
        if not reaches:
            expect = None
        if expect is not None and cl["desc"] is not None and fl is not None:
            k = (fl, cl["desc"])
            expect[k] = expect.get(k, 0) + 3
        for (first, desc), cnt in (expect or {}).items():
            pat = NL + re.escape(first) + NL + re.escape(desc) + NL
            got = len(re.findall(pat, t3.out))
            if got != cnt:
                return Result(violation=("concurrent-test-text", "three-part '=?' answer of %r with an unsolicited TEST of %r triggered at step %d: the unit %r + description %r must appear %d times, appears %d times; output %r" % (
                    cl["name"], ce["name"], case.get("ev_step", 0), first, desc, cnt, got, t3.out)), runs=3)
        if expect:
            labels.add("concurrent-test-texts")
    nt = near
    for i, c in enumerate(mb.cs):
        if c["vars"] and (c["only_test"] or dis[i] or len(c["h"]) < 4):
            nt = True
    if any(g["disable"] for g in case["groups"]):
        labels.add("disabled-group")
    if any(c["disable"] for c in mb.cs):
        labels.add("disabled-command")
    if any(c["only_test"] for c in mb.cs):
        labels.add("only-test")
    return Result(labels=sorted(labels), nontrivial=nt, runs=runs)


def minimise(case, W, sig):
    return case
