"""C13 - unsolicited events: bounded FIFO, each accepted event handled exactly once, in order (DESIGN 5, C13)."""
from .. import spec as S, events as E
from ..common import Result

ID = "C13"
LEVEL = "exploration"
WORLDS = [(q, "plain") for q in (1, 2, 3, 8)]
BUDGET = {"quick": dict(cases=1000), "thorough": dict(cases=36000)}
MIN_NONTRIVIAL = {"quick": 400, "thorough": 6000}
BLOB = (400, 1600)
RULE = ("Hypothesis byte-backed generator of histories for ring capacities 1, 2, 3 and 8 (one world executable each): 4-60 operations at generated service "
        "steps - trigger (through all three trigger functions, READ and TEST), bursts that overfill the ring, cat_is_unsolicited_buffer_full, "
        "cat_is_unsolicited_event_buffered (typed and untyped), cat_get_processed_command - on 2-5 event commands of four sorts (automatic response, scripted "
        "handler with multi-step return codes, handler that triggers further events, events that fail immediately: nothing readable / name does not fit; some event commands or their whole group disabled or only_test - triggers must not care), "
        "concurrently with 0-3 command lines (possibly held, released on stall; one trigger in six names a command that lines use, the held one included - for those only the queue bookkeeping is judged; one history in six ends inside a line and raises an event afterwards; numeric variables of unsupported width 3/5/8; disable flags of event commands flipped at generated steps) and output back-pressure; the processed command is sampled after every step. "
        "Oracle: QueueModel (bounded FIFO + in-progress slot) replayed over the trace: acceptance iff waiting < capacity, full-query agreement, start order = "
        "acceptance order, buffered/processed queries, every accepted event's handler invocations and units exactly once in order, model empty at quiescence. "
        "Non-trivial = more than 2 x capacity accepted events, at least one BUFFER_FULL and at least one immediately failing event; distinct by case hash.")
ASSUMPTIONS = ["event handlers never return HOLD (DESIGN 4.6)", "event commands' ('#...') variables are not written by command lines, so an event's text does not depend on timing; texts and handler calls of events raised on line commands are not compared",
               "event payloads start with '#', command payloads never do (harness-controlled alphabets), descriptions are not used on event commands"]
TECHNIQUE = "Hypothesis model-based (stateful) testing: generated call histories judged post hoc against an abstract bounded-FIFO queue model, for each compile-time ring capacity"
LEVEL_TEXT = ("Model-based testing over generated call histories (ring indices wrap many times) for every configured capacity; the abstract queue is replayed over the "
              "trace step by step, and the per-event output is predicted by the reference interpreter.")
LEVEL_NOTE = "Trusted: world harness (per-step sampling of the processed command), QueueModel, CodeTable/Formatter for event output, Hypothesis."
DESIGN_REF = "DESIGN.md section 5 C13"

CAPS = (1, 2, 3, 8)


def gen(d, tier):
    qcap = CAPS[d.below(4)]
    s, nev = E.gen_history(d, qcap, S.WF_SAMPLE)
    return dict(spec=s)


def run(case, W):
    s = case["spec"]
    t = W.run(s, "plain")
    if not t.ok:
        return Result(violation=("crash", str(t.crash)))
    if t.reason != "quiescent":
        return Result(violation=("no-quiescence", "%s after %d steps" % (t.reason, t.q["steps"])))
    v = E.judge_queue(s, t)
    if v.violation:
        return Result(violation=v.violation)
    labels = ["capacity-%d" % s["qcap"]]
    if v.full:
        labels.append("buffer-full")
    if v.immediate:
        labels.append("immediate-fail")
    if v.accepted > 2 * s["qcap"]:
        labels.append("wrapped")
    if v.accepted >= 256:
        labels.append("256-or-more-accepted")
    if s["input"]:
        labels.append("with-command-lines")
    if t.q["refused_w"]:
        labels.append("back-pressure")
    if any(h.code == S.HOLD for h in t.handlers):
        labels.append("hold")
    nt = v.accepted > 2 * s["qcap"] and v.full >= 1 and v.immediate >= 1
    return Result(labels=labels, nontrivial=nt)


def minimise(case, W, sig):
    from ..minimise import minimise_spec

    def still(sp):
        r = run(dict(spec=sp), W)
        return r.violation is not None and r.violation[0] == sig
    return dict(spec=minimise_spec(case["spec"], still, max_tests=1500))
