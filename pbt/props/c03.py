"""C03 - no out-of-bounds access / undefined behaviour; the two buffer halves stay separate (DESIGN 5, C03).

Primary engine: libFuzzer + ASan/UBSan target (world/fuzz_c03.c) with structured decode of a complete Spec.
Complement: a Hypothesis boundary sweep on the `san` world that places every capacity -2..+2 around the length of
the text a formatting / collecting path produces."""
import glob
import os
import shutil
import struct
import subprocess
import time
from .. import spec as S, gen as G, ref, build, fuzz
from ..spec import INT, UINT, HEX, BHEX, STR, RW, RO, WO, OK, DATA_OK, DATA_NEXT, NEXT, LIST
from ..common import Result

ID = "C03"
LEVEL = "exploration"
ENGINE = "libfuzzer+world"
WORLDS = [(1, "san"), (3, "san")]
BUDGET = {"quick": dict(cases=500, fuzz_s=120, fuzz_runs=15000, fuzz_caps=(1, 3)), "thorough": dict(cases=15000, fuzz_s=360, fuzz_caps=(1, 2, 3, 8))}
MIN_NONTRIVIAL = {"quick": 3000, "thorough": 100000}
BLOB = (300, 1200)
RULE = ("(1) libFuzzer campaign, one process per core, ASan+UBSan build: the input bytes are decoded into a complete case - shared/separate buffers, command "
        "capacity 6-48, unsolicited capacity 0-48, odd shared sizes, 1-12 commands in 1-2 groups, 0-4 variables of every type with data_size 1-64 (numeric "
        "also 3 and 8), all flags and handler subsets, return-code scripts over all 9 codes and out-of-range values for every handler in both FSMs (HOLD "
        "anywhere), variable-callback failures, triggers / cat_hold_exit / pokes from inside handlers and at generated steps, io schedules - and the remaining bytes "
        "are the parser input (all 256 values, up to 4096 bytes); every buffer and variable is an exact-size heap block, handlers touch the whole capacity they are "
        "told. (2) Hypothesis boundary sweep on the ASan world: READ text, TEST text with/without description, command-list lines, argument length, string and hex "
        "variables filled through plain and escaped characters, each with the capacity at text length -2..+2, in both FSMs and both layouts; tables of 4*capacity-{0..4} commands in a command buffer of 6-14 bytes. Oracles: sanitizer "
        "report / failed assert / crash; handler-visible pointer and capacity inside the calling FSM's region; without any event the unsolicited region is "
        "byte-identical from cat_init to the end, without any input byte the command region is. Non-trivial (fuzz) = an input in which a handler ran or an event "
        "produced output, counted as distinct input hashes per worker and summed; non-trivial (sweep) = capacity within 2 of the text length; distinct by case hash.")
ASSUMPTIONS = ["descriptor in the supported domain (command capacity >= 6 and >= ceil(commands/4), names non-NULL, implicit-write commands have only a write handler, type/access within their enums)",
               "numeric variables are naturally aligned (own malloc block)",
               "read/test handlers keep the buffer NUL-terminated inside max_data_size",
               "libFuzzer campaigns are only approximately reproducible; the saved crash artifact is the reproducible unit"]
TECHNIQUE = "coverage-guided fuzzing (libFuzzer, ASan+UBSan, structure-aware decode, semantic oracle inside the target) + Hypothesis boundary sweep on a sanitizer build"
LEVEL_TEXT = ("Coverage-guided fuzzing of the real library under ASan/UBSan with exact-size allocations, plus constructed capacity boundaries; a budget reached without a "
              "report means 'nothing found in N executions', never absence.")
LEVEL_NOTE = "Trusted: clang sanitizers, libFuzzer, the world harness. 'Tiny region' violations are reachable only where the sweep or the dictionary constructs them."
DESIGN_REF = "DESIGN.md section 5 C03"

C03_XV = ("variable-guard-damaged", "handler-capacity-or-pointer-wrong", "unsolicited-region-touched-without-event", "command-region-touched-without-input")


# ------------------------------------------------------------------ boundary sweep (Hypothesis)

def gen_table(d):
    """many commands in a command buffer of exactly / almost exactly ceil(n/4) bytes (the packed match-state array)"""
    cap = d.rng(6, 14)
    n = 4 * cap - d.pick([0, 0, 1, 2, 3, 4])
    stems = [b"+T", b"+TA", b"Z", b"+CM"]
    cmds = [S.mk_cmd(G.g_name(d, stems), "wrnt" if d.below(2) else "n", []) for _ in range(n)]
    shared = d.below(2) == 0
    inp = b""
    for _ in range(d.rng(1, 3)):
        inp += b"AT" + G.typed_name_for(d, d.pick(cmds)["name"]) + d.pick([b"", b"?", b"=1", b"=?"]) + b"\n"
    s = S.mk_spec(cmds, input=inp, shared=shared, bufsz=2 * cap if shared else cap, ubufsz=d.pick([0, 8, 16]),
                  actions=[[S.AT_STEP, d.below(40), S.WA_TRIG, d.below(n), d.below(2), None]] if d.below(2) else [])
    return dict(spec=s, meta=dict(kind="table", delta=4 * cap - n))


def gen(d, tier):
    if d.below(8) == 0:
        return gen_table(d)
    kind = d.pick(["read", "test", "list", "args", "fill", "read", "test"])
    vs = [G.g_var(d, max_buf=d.pick([4, 8, 16, 64]), callbacks=False) for _ in range(d.weighted([(1, 0), (3, 1), (3, 2), (2, 3), (1, 4)]))]
    for v in vs:
        if v["type"] in (INT, UINT, HEX) and d.chance(1, 3):
            # boundary bit patterns in variable storage (minimum / maximum of the width, -1, 0)
            v["init"] = d.pick([b"\x00\x00\x00\x80", b"\xff\xff\xff\x7f", b"\xff\xff\xff\xff", b"\x00\x00\x00\x00", b"\x80\x00\x80\x00", b"\x00\x80\x00\x80"])[:max(1, min(4, v["size"]))].ljust(v["size"], b"\x80")
    name = d.pick([b"+R", b"+RD_", b"#u", b"+LONGER_NAME"])
    c = S.mk_cmd(name, "".join(k for k in "wrnt" if d.below(2)), vs, desc=(d.pick([b"d", b"description", b"a rather long description text"]) if d.below(2) else None))
    for k in "rt":
        if k in c["h"]:
            c["scripts"]["0" + k] = [S.mk_step(d.pick([DATA_OK, DATA_NEXT, NEXT, OK, LIST]), d.below(3), d.pick(G.TAGS)) for _ in range(d.below(3))]
            c["scripts"]["1" + k] = [S.mk_step(d.pick([DATA_OK, DATA_NEXT, NEXT, OK]), d.below(3), d.pick(G.TAGS)) for _ in range(d.below(3))]
    lister = S.mk_cmd(b"+L", "n", [], scripts={"0n": [S.mk_step(LIST)] * 3})
    cmds = [c, lister]
    m0 = ref.Model(S.mk_spec(cmds, bufsz=4000))
    crlf = d.below(2)
    nl = b"\r\n" if crlf else b"\n"
    lens = []
    r = m0.read_text([], 0, 2000)
    if r:
        lens.append(len(r[0]))
    tt = ref.test_text(c, nl)
    if tt:
        lens.append(len(tt))
        lens.append(len(tt.split(nl)[0]))
    lens += [len(x[2]) for x in ref.cmd_list_lines(m0.cs, m0.dis(), nl)]
    if kind == "args" or not lens:
        L = d.pick([6, 7, 8, 12, 20, 33])
    else:
        L = d.pick(lens)
    delta = d.pick([0, 1, -1, 2, -2])
    cap = max(6, L + 1 + delta)
    # lines
    inp = bytearray()
    if kind == "args":
        n = cap + d.pick([-2, -1, 0, 1, 2, cap])
        inp += b"AT" + name + b"=" + bytes(d.pick(b"ab1,\"\\") for _ in range(max(0, n))) + nl
    elif kind == "fill":
        # fill a string / hex variable through plain and escaped characters around data_size
        parts = []
        for v in vs:
            if v["type"] == STR:
                n = max(0, v["size"] + d.pick([-2, -1, 0, 1]))
                parts.append(G.enc_string(bytes(d.pick(b'ab"\\\n') for _ in range(n))))
            elif v["type"] == BHEX:
                parts.append(b"A5" * max(0, v["size"] + d.pick([-1, 0, 1])) + (b"F" if d.below(4) == 0 else b""))
            else:
                parts.append(G.g_num_text(d, v, True))
        a = b",".join(parts)
        cap = max(cap, len(a) + 2)
        inp += b"AT" + name + b"=" + a + nl
    for _ in range(d.rng(1, 3)):
        inp += d.pick([b"AT" + name + b"?", b"AT" + name + b"=?", b"AT+L", b"AT" + name + b"=" + G.g_args(d, c, True), b"AT" + name]) .replace(b"\n", b".") + nl
    actions = []
    step = 0
    for _ in range(d.below(4)):
        step += d.pick([0, 3, 10, 40, 120])
        actions.append([S.AT_STEP, step, S.WA_TRIG, 0, d.below(2), None])
    shared = d.below(2) == 0
    ucap = max(0, L + 1 + d.pick([0, 1, -1, 2, -2]))
    s = S.mk_spec(cmds, input=bytes(inp), qcap=d.pick([1, 3]), shared=shared, bufsz=(2 * cap + d.below(2)) if shared else cap, ubufsz=ucap,
                  ws=G.g_sched(d, 6), actions=actions)
    return dict(spec=s, meta=dict(kind=kind, delta=delta))


def run(case, W):
    s = case["spec"]
    t = W.run(s, "san")
    if not t.ok:
        return Result(violation=("sanitizer-or-crash", str(t.crash)))
    xv = [x for x in t.xviol if x[1] in C03_XV]
    if xv:
        return Result(violation=(xv[0][1], "world invariant violated at step %d: %s (input %r)" % (xv[0][0], xv[0][1], s["input"])))
    if t.reason != "quiescent":
        return Result(violation=("no-quiescence", t.reason))
    m = case.get("meta", {})
    labels = ["sweep-" + m.get("kind", "?"), "delta%+d" % m.get("delta", 0), "shared" if s["shared"] else "separate"]
    if any(h.fsm == "u" for h in t.handlers):
        labels.append("unsolicited-handler")
    return Result(labels=labels, nontrivial=abs(m.get("delta", 9)) <= 2)


# ------------------------------------------------------------------ libFuzzer campaign

def prebuild(tier):
    fuzz.prebuild("c03", BUDGET[tier]["fuzz_caps"])


def campaign(tier, seed, nworkers):
    conf = BUDGET[tier]
    return fuzz.campaign(ID, "c03", conf["fuzz_caps"], conf["fuzz_s"], seed, nworkers, runs=conf.get("fuzz_runs"))


replay_artifact = fuzz.replay_artifact


def minimise(case, W, sig):
    from ..minimise import minimise_spec

    def still(sp):
        if (len(S.all_cmds(sp)) + 3) // 4 > S.ccap(sp) or S.ccap(sp) < 6:
            return False
        r = run(dict(spec=sp, meta=case.get("meta", {})), W)
        return r.violation is not None and r.violation[0] == sig
    return dict(spec=minimise_spec(case["spec"], still, max_tests=300), meta=case.get("meta", {}))
