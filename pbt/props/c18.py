"""C18 - cat_is_busy / cat_is_hold never report idle while work is in flight (DESIGN 5, C18)."""
from .. import spec as S, events as E, gen as G, ref
from ..common import Result
from ..trace import split_units

ID = "C18"
LEVEL = "exploration"
WORLDS = [(q, "plain") for q in (1, 3)]
BUDGET = {"quick": dict(cases=1400), "thorough": dict(cases=45000)}
MIN_NONTRIVIAL = {"quick": 1500, "thorough": 20000}
BLOB = (400, 1600)
LINE_TAGS = [b"tag", b"x", b"Hello", b"+EVT: 1", b"t,q"]
RULE = ("Hypothesis byte-backed generator: event histories (ring capacity 1 and 3; automatic, scripted, chained and immediately failing events) concurrent with "
        "0-3 command lines whose handlers use multi-step return codes and HOLD (released on stall or by HOLD_EXIT from an event handler), read availability "
        "patterns and write back-pressure; events on commands that lines use, histories that end inside a line, disable flags of event commands flipped at generated steps (an accepted event is delivered whole); no command lists, payloads non-empty and newline-free so a live tokeniser is unambiguous. cat_is_busy and cat_is_hold "
        "are sampled after EVERY service step. Oracle: a sample busy==OK requires (i) every input line of which a non-CR/LF byte has been consumed has its result "
        "code completely emitted and (ii) the output so far ends on a unit boundary (both producers); conversely cat_service==OK with no partial line requires "
        "busy==OK; is_hold==HOLD exactly from the step in which a command handler returned HOLD up to the step in which a release request is made. "
        "Non-trivial = some sample was taken while an unsolicited unit was partially written and some sample while a line was partially received; "
        "distinct by case hash.")
ASSUMPTIONS = ["payloads are non-empty and contain no CR/LF; no command lists (their continuation lines have no leading newline)",
               "event handlers never return HOLD (DESIGN 4.6)"]
TECHNIQUE = "Hypothesis model-based testing: per-step sampling of cat_is_busy / cat_is_hold judged against harness-side knowledge of partial input lines and partially emitted output units (live tokeniser)"
LEVEL_TEXT = ("Generated histories with the two status queries sampled after every service call (10^5-10^6 samples per run of the check) and judged against what the harness "
              "itself knows about partial lines and partial output units.")
LEVEL_NOTE = "Trusted: world harness, the unit tokeniser, Hypothesis."
DESIGN_REF = "DESIGN.md section 5 C18"


def gen(d, tier):
    qcap = (1, 3)[d.below(2)]
    s, nev = E.gen_history(d, qcap, S.WF_SAMPLE, long_history=d.below(2) == 0, line_tags=LINE_TAGS)
    # a partially received last line keeps the parser busy for ever: generated on purpose
    # query both status functions right after every release request, before the next service call
    acts = []
    for a in s["actions"]:
        acts.append(a)
        if a[2] == S.WA_HOLDEXIT:
            acts.append([a[0], a[1], S.WA_ISHOLD, 0, 0, None])
            acts.append([a[0], a[1], S.WA_ISBUSY, 0, 0, None])
    step = 0
    for _ in range(d.below(4)):
        step += d.pick([1, 5, 20, 60, 200])
        acts.append([S.AT_STEP, step, d.pick([S.WA_ISHOLD, S.WA_ISBUSY, S.WA_HOLDEXIT]), d.below(2), 0, None])
        if acts[-1][2] == S.WA_HOLDEXIT:
            acts.append([S.AT_STEP, step, S.WA_ISHOLD, 0, 0, None])
    s["actions"] = acts
    if s["input"] and d.unlikely(1, 5):
        s["input"] += d.pick([b"A", b"AT", b"AT+W", b"AT+W=1", b"\r"])
    return dict(spec=s)


def run(case, W):
    s = case["spec"]
    t = W.run(s, "plain")
    if not t.ok:
        return Result(violation=("crash", str(t.crash)))
    if t.reason != "quiescent":
        return Result(violation=("no-quiescence", "%s after %d steps" % (t.reason, t.q["steps"])))
    n = t.q["steps"]
    pu, busy, hold = E.expand_samples(t)
    stat = E.status_by_step(t)
    units, rest = split_units(t.out)
    # unit boundaries and result-code completion points (output offsets)
    bounds = {0}
    res_end = []
    ev_ranges = []
    pos = 0
    out = t.out
    for kind, payload, nl in units:
        start = pos
        if kind == "unit":
            pos += 1 if out[pos:pos + 1] == b"\n" else 2
        else:
            return Result(violation=("broken-unit", "the output is not a sequence of whole units (a unit was abandoned part-way, so the parser went idle inside it): %r in %r" % (payload, out[-120:])))
        pos += len(payload) + len(nl)
        bounds.add(pos)
        if payload in (b"OK", b"ERROR"):
            res_end.append(pos)
        elif payload.startswith(b"#"):
            ev_ranges.append((start, pos))
        if not payload:
            return Result(violation=("broken-unit", "empty unit in output %r" % out[-120:]))
    # per step: output length, number of started non-blank lines
    outlen = [0] * n
    started = [0] * n
    cur_len = 0
    cur_started = 0
    line_has_byte = False
    ev_iter = iter(t.events)
    by_step_w = {}
    by_step_r = {}
    for w in t.writes:
        by_step_w[w.step] = w.idx + 1
    for r in t.reads:
        by_step_r.setdefault(r.step, []).append(r.byte)
    for st in range(n):
        if st in by_step_w:
            cur_len = by_step_w[st]
        for b in by_step_r.get(st, []):
            if b == 10:
                line_has_byte = False
            elif b != 13 and not line_has_byte:
                line_has_byte = True
                cur_started += 1
        outlen[st] = cur_len
        started[st] = cur_started
    exp_hold, windows = E.hold_timeline(t)
    z = E.hold_zones(windows, hold, n)
    mid_ev = mid_line = 0
    ri = 0
    for st in range(n):
        L = outlen[st]
        while ri < len(res_end) and res_end[ri] <= L:
            ri += 1
        done = ri
        partial_line = started[st] > done
        on_boundary = L in bounds
        in_ev = any(a < L < b for a, b in ev_ranges) if not on_boundary else False
        if in_ev:
            mid_ev += 1
        if partial_line:
            mid_line += 1
        if busy[st] == S.S_OK:
            if partial_line:
                return Result(violation=("idle-with-partial-line", "after step %d cat_is_busy is OK but %d lines were started and only %d result codes are complete (output so far %r)" % (st, started[st], done, out[:L][-60:])))
            if not on_boundary:
                return Result(violation=("idle-mid-unit", "after step %d cat_is_busy is OK but the output so far ends inside a unit: %r" % (st, out[:L][-60:])))
        elif busy[st] == S.S_BUSY:
            if stat[st] == S.S_OK and not partial_line:
                return Result(violation=("busy-when-quiescent", "after step %d cat_service returned OK with no partial line but cat_is_busy says BUSY" % st))
        else:
            return Result(violation=("busy-value", "cat_is_busy returned %d" % busy[st]))
        if (z[st] == "H" and hold[st] != S.S_HOLD) or (z[st] == "O" and hold[st] != S.S_OK):
            return Result(violation=("is-hold", "after step %d cat_is_hold is %d, expected %s (hold windows %r)" % (st, hold[st], "HOLD" if z[st] == "H" else "OK", windows)))
    if n and z[n - 1] == "?" and hold[n - 1] == S.S_HOLD:
        return Result(violation=("is-hold", "the run ends with cat_is_hold still HOLD although every hold was released (hold windows %r)" % (windows,)))
    # queries made between two service calls (pre-actions of step st): judged with the state after step st-1;
    # a release request made just before does not end the suspension until the parser has acted on it
    v, _sp = E.judge_hold_api(t, z, n)
    if v:
        return Result(violation=(v[0], v[1] + " (hold windows %r)" % (windows,)))
    nq = 0
    for a in t.apis:
        if a.insvc or a.name not in ("ishold", "isbusy"):
            continue
        prev = a.step - 1
        if a.name == "ishold":
            nq += 1
            continue          # (judged below, together with the release requests of the same gap)
        else:
            if prev < 0 or prev >= n:
                continue
            L = outlen[prev]
            done = sum(1 for e in res_end if e <= L)
            if a.result == S.S_OK and (started[prev] > done or L not in bounds):
                return Result(violation=("idle-with-partial-line" if started[prev] > done else "idle-mid-unit", "cat_is_busy queried before service call %d returned OK (started %d, complete %d, output %r)" % (a.step, started[prev], done, out[:L][-40:])))
    labels = []
    if nq:
        labels.append("queried-between-calls")
    if mid_ev:
        labels.append("sampled-mid-event-unit")
    if mid_line:
        labels.append("sampled-partial-line")
    if windows:
        labels.append("hold")
    labels.append("capacity-%d" % s["qcap"])
    return Result(labels=labels, nontrivial=(mid_ev > 0 and mid_line > 0))


def minimise(case, W, sig):
    from ..minimise import minimise_spec

    def still(sp):
        r = run(dict(spec=sp), W)
        return r.violation is not None and r.violation[0] == sig
    return dict(spec=minimise_spec(case["spec"], still, max_tests=1500))
