"""C07 - READ output fed back as WRITE arguments restores every variable value (DESIGN 5, C07).

Round trip, no model: run AT<name>?, take the payload after '<name>=', run AT<name>=<payload> from the same initial
values; the answer must be OK and every variable must hold the bytes it had."""
from .. import spec as S, gen as G, ref
from ..spec import INT, UINT, HEX, BHEX, STR, RW, RO
from ..common import Result
from ..trace import split_units

ID = "C07"
LEVEL = "exploration"
WORLDS = [(1, "plain")]
BUDGET = {"quick": dict(cases=1600, bits16=False), "thorough": dict(cases=60000, bits16=True)}
MIN_NONTRIVIAL = {"quick": 2000, "thorough": 30000}
BLOB = (200, 900)
RULE = ("Enumerated: every 8-bit pattern (quick) and every 16-bit pattern (thorough) of INT, UINT and HEX variables, eight values per command - these "
        "sub-sweeps are exhaustive. Generated (Hypothesis): one command with 1-5 variables (read-write, read-only interspersed) of all five types, widths "
        "1/2/4, buffers 1-64 bytes; 32-bit boundary patterns and random values, hex buffers with high-bit bytes, strings of length 0..data_size-1 over "
        "0x01-0xFF minus CR with quote, backslash, LF and comma over-represented and placed first/last; capacity from 'READ text just fits' to generous; a quarter of the cases put 1-3 requests on another command in front of both the READ and the WRITE (READs that outgrow the buffer inside a long hex buffer, WRITEs rejected after 15-34 good bytes, TEST requests): neither may depend on the session's history; half of those cases end every line with CR LF. "
        "Non-trivial = the tuple contains a boundary integer pattern (0, -1, min, max, 0x80..), a buffer byte >= 0x80 or a string with a character that "
        "needs escaping; distinct by case hash.")
ASSUMPTIONS = ["write-only variables are excluded (they are reported as zero by design, C08)",
               "string values contain no CR and end with a NUL inside data_size (the statement's quantifier)",
               "a string variable's value is its text up to the terminator: bytes behind it (inside data_size) are not compared - no statement fixes what a WRITE leaves there"]
TECHNIQUE = "exhaustive enumeration of 8/16-bit patterns + Hypothesis property-based testing; oracle = print/parse round trip through the real library (no model)"
LEVEL_TEXT = ("Round-trip oracle on the real code: whatever READ prints must be accepted by WRITE and restore the bytes. 8- and 16-bit value spaces are covered "
              "exhaustively, 32-bit and buffer/string spaces by constructed boundaries plus random sampling.")
LEVEL_NOTE = "Trusted: world harness, the unit tokeniser that extracts the payload, Hypothesis."
DESIGN_REF = "DESIGN.md section 5 C07"

B32 = [0, 1, 0x7F, 0x80, 0xFF, 0x100, 0x7FFF, 0x8000, 0xFFFF, 0x10000, 0x7FFFFFFF, 0x80000000, 0xFFFFFFFF, 0xFFFFFFFE, 0x80000001, 10, 99, 100, 999999999, 1000000000, 4294967295]


def g_value(d, t, sz):
    if t in (INT, UINT, HEX):
        if d.chance(1, 2):
            v = d.pick(B32) & ((1 << (8 * sz)) - 1)
        else:
            v = int.from_bytes(d.bytes(sz), "little")
        return v.to_bytes(sz, "little")
    if t == BHEX:
        return d.bytes(sz)
    n = d.pick([0, sz - 1, d.below(sz)])
    out = bytearray()
    for j in range(n):
        k = d.below(10)
        if k == 0 or (j in (0, n - 1) and d.below(3) == 0):
            out.append(d.pick(b'"\\\n,'))
        elif k == 1:
            x = d.rng(1, 255) if d.below(2) else d.pick([1, 7, 8, 9, 11, 12, 27, 31, 127, 128, 255, 32, 32])
            out.append(x if x != 13 else 0x21)
        else:
            out.append(d.pick(b"abcXYZ 0189n_-"))
    return (bytes(out) + bytes(sz))[:sz] if d.chance(3, 4) else (bytes(out) + b"\0" + d.bytes(sz))[:sz]


def mk_case(vs, cap, name=b"+RT"):
    c = S.mk_cmd(name, "", vs)
    return dict(cmd=c, cap=cap)


def gen(d, tier):
    if d.unlikely(1, 4):
        return gen_history(d, tier)
    return gen_plain(d, tier)


def gen_plain(d, tier):
    n = d.weighted([(3, 1), (3, 2), (2, 3), (1, 4), (1, 5)])
    vs = []
    for _ in range(n):
        t = d.pick([INT, UINT, HEX, BHEX, STR])
        sz = d.pick([1, 2, 4]) if t in (INT, UINT, HEX) else d.weighted([(5, d.rng(1, 8)), (2, d.rng(9, 24)), (1, d.rng(25, 64))])
        acc = RW if d.chance(4, 5) else RO
        vs.append(S.mk_var(t, sz, acc, g_value(d, t, sz)))
    if n >= 2 and d.unlikely(1, 6):
        # two strings: the first ends in a backslash, the second contains blanks and quotes
        vs[0] = S.mk_var(STR, 8, RW, (d.pick([b"a\\", b"\\", b"x \\", b"\"\\"]) + bytes(8))[:8])
        vs[-1] = S.mk_var(STR, 12, RW, (d.pick([b"two words", b" lead", b"a  b", b"q\" r"]) + bytes(12))[:12])
    if all(v["access"] == RO for v in vs):
        vs[d.below(len(vs))]["access"] = RW      # a command with nothing writable offers no WRITE at all (C08)
    name = d.pick([b"+RT", b"+V", b"X", b"+long_name"])
    probe = S.mk_cmd(name, "", vs)
    m = ref.Model(S.mk_spec([probe], bufsz=8000))
    r = m.read_text([], 0, 4000)
    L = len(r[0]) if r else 40
    cap = L + 1 + d.pick([0, 0, 1, 2, 8, 40, 200, -1, -2])   # -1/-2: cannot hold the text: READ must not answer OK
    return dict(cmd=probe, cap=max(6, cap))


def g_pre(d, cap):
    """session history in front of the round trip: requests on ANOTHER command (+P) that fail part-way - a READ whose text
    outgrows the buffer inside a long variable, a WRITE rejected after many good bytes - or succeed.  What READ prints must
    still be what WRITE accepts afterwards: neither may depend on what the parser did before."""
    big = max(1, d.pick([cap // 2 - 3, cap // 2, cap // 2 + 2, cap, 17, 33, 34, 40, 48, 64]))
    vs = [S.mk_var(BHEX, big, RW, d.bytes(big))]
    if d.below(3) == 0:
        vs.insert(d.below(2), S.mk_var(d.pick([INT, STR, BHEX]), 4, RW, b"a\0\0\0"))
    pc = S.mk_cmd(b"+P", "", vs)
    lines = []
    for _ in range(d.rng(1, 3)):
        k = d.below(6)
        if k <= 1:
            lines.append(b"AT+P?")
        elif k == 2:
            lines.append(b"AT+P=?")
        else:
            good = d.bytes(big)
            n = min(big, d.pick([15, 16, 17, 31, 32, 33, 34, big - 1, big, big]))
            txt = good[:n].hex().upper().encode() + d.pick([b"", b"G", b"0", b"00", b"0000", b",", b",1", b"\""])
            if len(vs) == 2 and vs[0]["size"] == 4:
                txt = (b"1," if vs[0]["type"] == INT else (b"\"a\"," if vs[0]["type"] == STR else b"00,")) + txt
            lines.append(b"AT+P=" + txt)
    return dict(cmd=pc, lines=lines)


def gen_history(d, tier):
    case = gen_plain(d, tier)
    c = case["cmd"]
    if d.below(2):
        sz = d.rng(17, 44)
        c["vars"][d.below(len(c["vars"]))] = S.mk_var(BHEX, sz, RW, d.bytes(sz))
    full = ref.Model(S.mk_spec([S.clone(c)], bufsz=16000)).read_text([], 0, 8000)
    L = len(full[0]) if full else 40
    case["cap"] = max(case["cap"], L + 1 + d.pick([0, 1, 8, 40]), d.pick([48, 64, 80, 100, 128, 200]))
    case["pre"] = g_pre(d, case["cap"])
    case["crlf"] = d.below(2)         # the host ends every line with CR LF (the answers are framed CR LF then)
    return case


def run(case, W):
    c = case["cmd"]
    cap = case["cap"]
    pre = case.get("pre")
    extra = [S.clone(pre["cmd"])] if pre else []
    eol = b"\r\n" if case.get("crlf") else b"\n"
    hist = b"".join(l + eol for l in pre["lines"]) if pre else b""
    npre = len(pre["lines"]) if pre else 0
    s1 = S.mk_spec([S.clone(c)] + extra, input=hist + b"AT" + c["name"] + b"?" + eol, shared=False, bufsz=cap, ubufsz=8)
    t1 = W.run(s1, "plain")
    if not t1.ok:
        return Result(violation=("crash", str(t1.crash)))
    if t1.reason != "quiescent":
        return Result(violation=("no-quiescence", t1.reason))
    out1 = t1.out_by_line(npre + 1)[npre + 1]      # the answer to the last line (nothing of it is sent before its LF is read)
    units, rest = split_units(out1)
    full = ref.Model(S.mk_spec([S.clone(c)], bufsz=16000)).read_text([], 0, 8000)
    fits = full is not None and len(full[0]) < cap
    if not fits and out1 == eol + b"ERROR" + eol:
        return Result(labels=["read-does-not-fit"], nontrivial=False)
    if rest or len(units) != 2 or units[1][1] != b"OK" or not units[0][1].startswith(c["name"] + b"="):
        # a READ that does not fit the capacity is an ERROR: nothing to feed back (cap is chosen to fit, so this is unexpected)
        return Result(violation=("read-failed", "READ of a command whose text fits capacity %d answered %r%s" % (cap, out1, (" after the lines %r" % (pre["lines"],)) if pre else "")))
    payload = units[0][1][len(c["name"]) + 1:]
    before = {k: v for k, v in t1.final_vars().items() if k[0] == 0}
    init = {(0, k): (v["init"] + bytes(v["size"]))[:v["size"]] for k, v in enumerate(c["vars"])}
    if before != init:
        return Result(violation=("read-modified", "READ changed variable storage: %r -> %r" % (init, before)))
    s2 = S.mk_spec([S.clone(c)] + extra, input=hist + b"AT" + c["name"] + b"=" + payload + eol, shared=False, bufsz=cap, ubufsz=8)
    t2 = W.run(s2, "plain")
    if not t2.ok:
        return Result(violation=("crash", str(t2.crash)), runs=2)
    if t2.reason != "quiescent":
        return Result(violation=("no-quiescence", t2.reason), runs=2)
    out2 = t2.out_by_line(npre + 1)[npre + 1]
    if out2 != eol + b"OK" + eol:
        return Result(violation=("write-rejected", "READ printed %r but WRITE of that text answered %r%s" % (payload, out2, (" after the lines %r" % (pre["lines"],)) if pre else "")), runs=2)
    after = t2.final_vars()
    for k, v in enumerate(c["vars"]):
        if not ref.same_value(v, after[(0, k)], init[(0, k)]):
            return Result(violation=("value-changed", "variable %d (type %d size %d): %r printed as part of %r reads back as %r" % (k, v["type"], v["size"], init[(0, k)], payload, after[(0, k)])), runs=2)
    labels = set()
    nt = False
    for k, v in enumerate(c["vars"]):
        b = init[(0, k)]
        if v["type"] in (INT, UINT, HEX):
            x = int.from_bytes(b, "little")
            bits = 8 * v["size"]
            if x in (0, (1 << bits) - 1, 1 << (bits - 1), (1 << (bits - 1)) - 1, (1 << (bits - 1)) + 1):
                nt = True
                labels.add("int-boundary")
            labels.add("numeric")
        elif v["type"] == BHEX:
            labels.add("hexbuf")
            if any(x >= 0x80 for x in b):
                nt = True
                labels.add("high-bit-byte")
        else:
            labels.add("string")
            sv = b.split(b"\0")[0]
            if any(x in (0x22, 0x5C, 0x0A) for x in sv):
                nt = True
                labels.add("escaped-char")
        if v["access"] == RO:
            labels.add("has-read-only")
    if cap - (len(payload) + len(c["name"]) + 1) <= 2:
        labels.add("capacity-just-fits")
    if case.get("crlf"):
        labels.add("crlf-host")
    if pre:
        labels.add("with-session-history")
        if b"ERROR" in b"".join(t1.out_by_line(npre + 1)[:npre + 1]):
            labels.add("history-has-failed-request")
    return Result(labels=sorted(labels), nontrivial=nt, runs=2)


def _patterns(bits):
    for t in (INT, UINT, HEX):
        sz = bits // 8
        vals = list(range(1 << bits))
        for i in range(0, len(vals), 8):
            vs = [S.mk_var(t, sz, RW, v.to_bytes(sz, "little")) for v in vals[i:i + 8]]
            yield dict(cmd=S.mk_cmd(b"+P", "", vs), cap=128)


def enumerations(tier):
    yield "all-8-bit-patterns", _patterns(8)
    if BUDGET[tier]["bits16"]:
        yield "all-16-bit-patterns", _patterns(16)


def minimise(case, W, sig):
    return case
