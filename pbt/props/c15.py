"""C15 - cat_service reports OK only when quiescent, and always gets there (DESIGN 5, C15)."""
from .. import spec as S, events as E
from ..common import Result

ID = "C15"
LEVEL = "exploration"
WORLDS = [(q, "plain") for q in (1, 2, 3, 8)]
BUDGET = {"quick": dict(cases=1000), "thorough": dict(cases=36000)}
MIN_NONTRIVIAL = {"quick": 1000, "thorough": 12000}
BLOB = (400, 1600)
RULE = ("Hypothesis byte-backed generator of histories for ring capacities 1, 2, 3, 8: the C13 event histories (events of four sorts including ones that fail "
        "immediately, bursts, chains, events on commands that lines use, histories ending inside a line with an event raised afterwards, numeric variables of unsupported width, disable-flag flips, need_all_vars line commands, empty argument lists, run handlers returning PRINT_CMD_LIST_OK with entries that do not fit) with command lines whose handlers use multi-step return codes and HOLD (released when the parser stalls, with either "
        "status), write back-pressure and read availability patterns that eventually stop. The world runs in probe mode: after EVERY cat_service call that "
        "returns OK it immediately calls cat_service again with no new input byte, trigger or release. Oracle (a): that call emits nothing, invokes no callback "
        "and returns OK, and the QueueModel has no accepted event pending or in progress at that step. Oracle (b): after the last stimulus (input byte, action, "
        "refusal) quiescence is reached within 64 + 8(N+V+8)(R+E+S+1) + 8*O calls (N commands, V max variables, R input bytes, E accepted events, S script "
        "steps, O output bytes). Non-trivial = an immediately failing event with another event queued behind it, or a hold, or two or more events pending at "
        "some step; distinct by case hash.")
ASSUMPTIONS = ["every hold is eventually released and every script terminates (DESIGN 4.9)", "io read polling is not a 'callback' in the statement's sense; handler, variable callbacks and io write are",
               "event handlers never return HOLD (DESIGN 4.6)"]
TECHNIQUE = "Hypothesis model-based testing with an immediate re-call probe after every OK (metamorphic: OK => an immediate repeat is a no-op) plus a bounded-progress predicate"
LEVEL_TEXT = ("Generated histories with a probe after every OK return: 'OK means quiescent' is checked as an executable predicate at every OK of every explored run; "
              "'always gets there' is checked as a bounded-progress predicate per run (not as liveness over all fair schedules).")
LEVEL_NOTE = "Trusted: world harness (probe call without stimulus), QueueModel, Hypothesis. Liveness is only checked as a step bound on explored histories."
DESIGN_REF = "DESIGN.md section 5 C15"

CAPS = (1, 2, 3, 8)


def gen(d, tier):
    qcap = CAPS[d.below(4)]
    s, nev = E.gen_history(d, qcap, S.WF_SAMPLE | S.WF_PROBE, lists=True)
    return dict(spec=s)


def progress_bound(s, t):
    cs = S.all_cmds(s)
    N = len(cs)
    V = max([len(c["vars"]) for c in cs] + [0])
    R = len(s["input"])
    Ev = sum(1 for a in t.apis if a.name == "trig" and a.result == 0)
    Sc = sum(len(st) for c in cs for st in c["scripts"].values())
    O = len(t.out)
    return 64 + 8 * (N + V + 8) * (R + Ev + Sc + 1) + 8 * O


def run(case, W):
    s = case["spec"]
    t = W.run(s, "plain")
    if not t.ok:
        return Result(violation=("crash", str(t.crash)))
    if t.reason != "quiescent":
        return Result(violation=("no-quiescence", "%s after %d steps (livelock or lost wake-up): last status %r" % (t.reason, t.q["steps"], t.status[-2:])))
    # (a) OK means quiescent
    if t.probes:
        st, ps, pa = t.probes[0]
        return Result(violation=("ok-not-quiescent", "cat_service returned OK at step %d but the immediately repeated call (no new stimulus) returned %d and %s" % (st, ps, "had callback/output activity" if pa else "had no activity")))
    v = E.judge_queue(s, t, check_outputs=False, check_ok_idle=True)
    if v.violation and v.violation[0] in ("ok-with-pending-event", "not-drained"):
        return Result(violation=v.violation)
    # (b) gets there within the bound after the last stimulus
    last = 0
    for k, e in t.events:
        if k in ("R", "A", "w"):
            last = max(last, e.step)
    bound = progress_bound(s, t)
    if t.q["steps"] - last > bound:
        return Result(violation=("slow-quiescence", "%d calls after the last stimulus (bound %d)" % (t.q["steps"] - last, bound)))
    labels = ["capacity-%d" % s["qcap"]]
    hold = any(h.code == S.HOLD and h.fsm == "c" for h in t.handlers)
    if hold:
        labels.append("hold")
    if v.fail_then_queued:
        labels.append("fail-then-queued")
    if v.two_pending:
        labels.append("two-pending")
    if t.q["refused_w"]:
        labels.append("back-pressure")
    if s["input"] and not s["input"].endswith(b"\n") and any(a[0] == S.AT_LINE and a[2] == S.WA_TRIG for a in s["actions"]):
        labels.append("event-while-line-incomplete")
    if any(h.code == S.LIST and h.fsm == "c" for h in t.handlers):
        labels.append("command-list")
    nok = sum(1 for st in t.status if st[1] == S.S_OK)
    if nok >= 2:
        labels.append("several-ok-phases")
    return Result(labels=labels, nontrivial=(v.fail_then_queued or hold or v.two_pending))


def minimise(case, W, sig):
    from ..minimise import minimise_spec

    def still(sp):
        r = run(dict(spec=sp), W)
        return r.violation is not None and r.violation[0] == sig
    return dict(spec=minimise_spec(case["spec"], still, max_tests=1500))
