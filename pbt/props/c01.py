"""C01 - exactly one final result code per command line, in order; no read-ahead (DESIGN 5, C01).

Oracle is model-free: it only counts and orders result codes and watches which input offset is handed
out when."""
import itertools
from .. import spec as S, gen as G, ref, fuzz
from ..common import Result, viol
from ..trace import split_units

ID = "C01"
LEVEL = "exploration"
WORLDS = [(1, "plain")]
BUDGET = {"quick": dict(cases=1200, fuzz_s=90, fuzz_runs=12000), "thorough": dict(cases=25000, fuzz_s=90)}
MIN_NONTRIVIAL = {"quick": 300, "thorough": 3000}
RULE = ("Hypothesis byte-backed generator: table of 1-12 commands built from shared stems (ambiguous / unique / exact "
        "abbreviations), all handler subsets, scripts of 0-3 NEXT/DATA_NEXT then a terminal code, command capacity 6-64, "
        "1-12 lines from a line grammar each optionally broken at a generated position with a syntactically valid command "
        "as tail text, LF/CRLF, stray CRs, random io schedule; in a quarter of the cases 1-5 unsolicited events of commands that no line names, with unsolicited capacities 4-32 so that some event texts do not fit and are dropped (they must neither cost nor add a result code); plus an enumerated sweep of all registration orders of "
        "every <=4-command table over the +T/+TA/+TB/+TAB family x typed prefix x suffix; plus a libFuzzer campaign (world/fuzz_c01.c: structured descriptor decode, raw input bytes, streaming result-code monitor inside the target; its non-trivial inputs = at least 2 terminated non-blank lines, counted as distinct input hashes per worker). Non-trivial = at least 2 "
        "non-blank lines and at least one broken line with >=1 byte after the break; distinct by case hash.")
ASSUMPTIONS = ["handlers eventually return a terminal code (finite scripts, no HOLD)",
               "payload alphabets are harness-controlled: no name/description/tag equals OK or ERROR or contains CR/LF",
               "io read reports 'nothing' as 0; io write refuses with 0, -1 or 2",
               "descriptor in the supported domain: command capacity >= 6 and >= ceil(commands/4)"]
BLOB = (300, 1400)
TECHNIQUE = "Hypothesis property-based testing (byte-backed structured generator, shrinking) + enumerated sweep + libFuzzer campaign, model-free result-code/read-offset oracle over the io trace"
LEVEL_TEXT = ("Generated-input search: for every generated table/input/schedule the io trace is checked against a model-free "
              "invariant (one result code per non-blank line, in order, no input byte handed out before the previous answer is "
              "complete). Right level because the property quantifies over all inputs x tables x buffer sizes and an executable "
              "oracle exists; absence of violations is evidence, not proof.")
LEVEL_NOTE = ("Trusted: the world harness (callbacks, schedule, trace), the unit tokeniser, Hypothesis. Assumes finite handler "
              "scripts without HOLD, payload alphabets without CR/LF/OK/ERROR, supported descriptor domain.")
DESIGN_REF = "DESIGN.md section 5 C01"

TERMINAL = [S.OK, S.DATA_OK, S.ERR, S.LIST, S.HEX_OK, S.HEX_ERR, 9]
TAILS = (b"ATZ", b"AT+X=1", b"AT", b"AT+T?")


def _scripts(d, c):
    for k in c["h"]:
        if d.below(2):
            n = d.below(4)
            st = [S.mk_step(d.pick([S.NEXT, S.DATA_NEXT]), d.below(3), d.pick(G.TAGS)) for _ in range(n)]
            st.append(S.mk_step(d.pick(TERMINAL), d.below(3), d.pick(G.TAGS)))
            c["scripts"]["0" + k] = st


def gen_case(d, tier):
    cc = d.pick([6, 7, 8, 9, 10, 12, 16, 20, 24, 32, 48, 64])
    # focus first: the lines and the commands they target
    stems = [d.pick(G.STEMS)] + [d.pick(G.STEMS) for _ in range(d.below(3))]
    n = d.rng(1, 12)
    cmds = []
    for _ in range(n):
        c = G.g_cmd(d, G.g_name(d, stems), maxvars=2, scripts=False, var_kw=dict(fails=True))
        _scripts(d, c)
        cmds.append(c)
    if d.chance(1, 2):
        cmds.insert(d.below(len(cmds) + 1), S.mk_cmd(b"Z", "n"))
    G.fix_implicit_duplicates(cmds)
    broken = 0
    inp = bytearray()
    nlines = d.rng(1, 12)
    for _ in range(nlines):
        r = d.below(16)
        if r == 0:
            ln = d.pick([b"", b"\r", b"\r\r"])
            inp += ln + b"\n"
            continue
        ln = G.g_line(d, cmds, valid_bias=True, cap=cc, tails=TAILS)
        if d.chance(1, 3):
            ln2 = G.damage_line(d, ln, cc, TAILS)
            if ln2 != ln:
                broken += 1
            ln = ln2
        ln = ln.replace(b"\n", b".")
        inp += G.add_crs(d, ln)
    if d.unlikely(1, 10):
        inp += d.pick([b"AT", b"A", b"AT+T=1", b"\r"])   # unterminated tail: no result code expected
    # one case in four: unsolicited events of commands that no line names ('~' is not typed by the line grammar), raised at
    # generated steps / line barriers; their texts may or may not fit the unsolicited buffer (an event that does not fit is
    # dropped - it must not cost or add a result code on the command channel)
    actions = []
    nev = 0
    if d.chance(1, 4):
        for _ in range(d.rng(1, 2)):
            cmds.append(S.mk_cmd(b"~E" + bytes(d.pick(b"abcXYZ019") for _ in range(d.below(10))), "",
                                 [S.mk_var(S.INT, 1, S.RW, bytes([d.below(100)]), name=b"v" if d.below(2) else None)]))
            nev += 1
        for _ in range(d.rng(1, 5)):
            ci = len(cmds) - 1 - d.below(nev)
            if d.below(2):
                actions.append([S.AT_STEP, d.below(40 * (nlines + 1)), S.WA_TRIG, ci, d.below(2), None])
            else:
                actions.append([S.AT_LINE, d.below(nlines + 1), S.WA_TRIG, ci, d.below(2), None])
    groups = G.g_groups(d, cmds)
    shared = d.below(2) == 0
    s = S.mk_spec(groups=groups, input=bytes(inp), shared=shared, bufsz=(2 * cc + d.below(2)) if shared else cc,
                  ubufsz=d.pick([4, 6, 8, 12, 32]) if nev else d.pick([0, 8, 32]), rs=G.g_sched(d), ws=G.g_sched(d), actions=actions)
    if (len(cmds) + 3) // 4 > S.ccap(s):
        return None
    return dict(spec=s, meta=dict(broken=broken, events=nev))


def gen(d, tier):
    return gen_case(d, tier)


def oracle(s, t):
    if not t.ok:
        return ("crash", "world died: %s" % t.crash)
    if t.reason != "quiescent":
        return ("no-quiescence", "run ended with reason %s after %d steps (input pos %d of %d)" % (t.reason, t.q["steps"], t.q["inpos"], len(s["input"])))
    lines, tail = ref.split_lines(s["input"])
    nonblank = [not ref.is_blank(l) for l in lines]
    # prefix counts: nb[k] = number of non-blank lines among the first k lines
    nb = [0]
    for x in nonblank:
        nb.append(nb[-1] + (1 if x else 0))
    total = nb[-1]
    units, rest = split_units(t.out)
    if rest:
        return ("partial-unit", "output does not end on a unit boundary: %r" % t.out[-40:])
    # byte ranges of result-code units
    res_units = []   # (first_idx, last_idx, payload)
    pos = 0
    out = t.out
    for kind, payload, nl in units:
        start = pos
        if kind == "unit":
            pos += 1 if out[pos:pos + 1] == b"\n" else 2
        pos += len(payload) + len(nl)
        if kind == "unit" and payload in (b"OK", b"ERROR"):
            res_units.append((start, pos - 1, payload))
    if len(res_units) != total:
        return ("count", "%d non-blank lines but %d result codes; output %r" % (total, len(res_units), out[-200:]))
    first_of = {a: j for j, (a, b, p) in enumerate(res_units)}
    ends = sorted(b for a, b, p in res_units)
    # (c) and (d) along the event order
    outlen = 0
    done = 0          # result codes completely written so far
    ei = 0
    for k, e in t.events:
        if k == "W":
            if e.idx in first_of:
                j = first_of[e.idx] + 1
                if nb[min(e.lf, len(nb) - 1)] < j:
                    return ("early-result", "result code #%d starts when only %d non-blank lines were terminated" % (j, nb[min(e.lf, len(nb) - 1)]))
            outlen = e.idx + 1
            while ei < len(ends) and ends[ei] < outlen:
                ei += 1
            done = ei
        elif k == "R":
            need = nb[min(e.lf, len(nb) - 1)]
            if done < need:
                return ("read-ahead", "input offset %d (byte %02x) handed out after %d non-blank lines were terminated but only %d result codes were complete" % (e.off, e.byte, need, done))
    # (b) blank lines and the time before the first LF produce no output (event texts may appear anywhere: not checked with events)
    if s["actions"]:
        return None
    seg = t.out_by_line(len(lines))
    if seg[0]:
        return ("early-output", "output before any LF was consumed: %r" % seg[0])
    for i, ln in enumerate(lines):
        if not nonblank[i] and seg[i + 1]:
            return ("blank-output", "blank line %d produced output %r" % (i, seg[i + 1]))
    return None


def run(case, W):
    s = S.clone(case["spec"])
    s["flags"] |= S.WF_C01MON         # the world's streaming monitor (used by the fuzz target) must agree with the oracle below
    t = W.run(s, "plain")
    v = oracle(s, t)
    if v is None:
        xv = [x for x in t.xviol if x[1].startswith("c01-")]
        if xv:
            v = ("monitor-disagrees", "the streaming C01 monitor reports %r but the trace oracle accepts the run" % (xv[:2],))
    if v:
        return Result(violation=v)
    lines, tail = ref.split_lines(s["input"])
    nbl = sum(1 for l in lines if not ref.is_blank(l))
    broken = case.get("meta", {}).get("broken", 0)
    labels = []
    if broken:
        labels.append("broken-line")
    if t.q["refused_r"] or t.q["refused_w"]:
        labels.append("io-refusals")
    if len(S.all_cmds(s)) > 4:
        labels.append("table>4")
    if any(h.code in (S.NEXT, S.DATA_NEXT) for h in t.handlers):
        labels.append("multi-step-handler")
    if t.handlers:
        labels.append("handler-ran")
    if tail:
        labels.append("unterminated-tail")
    if s["actions"]:
        labels.append("with-events")
        ev_units = sum(1 for u in split_units(t.out)[0] if u[0] == "unit" and u[1][:1] == b"~")
        trig_ok = sum(1 for a in t.apis if a.name.startswith("trig") and a.result == 0)
        if trig_ok > ev_units:
            labels.append("event-accepted-without-output")
    return Result(labels=labels, nontrivial=(nbl >= 2 and broken >= 1))


# ---------------------------------------------------------------- enumerated sweep

FAMILY = [b"+T", b"+TA", b"+TB", b"+TAB"]
TYPED = [b"+", b"+T", b"+TA", b"+TB", b"+TAB", b"+TAX"]
SUFFIX = [b"", b"?", b"=", b"=?"]


def _sweep():
    for r in range(1, 5):
        for sub in itertools.combinations(FAMILY, r):
            for order in itertools.permutations(sub):
                for zpos in (0, 1):
                    cmds = [S.mk_cmd(nm, "wrnt") for nm in order]
                    z = S.mk_cmd(b"Z", "n")
                    cmds = ([z] + cmds) if zpos == 0 else (cmds + [z])
                    for ty in TYPED:
                        for sf in SUFFIX:
                            inp = b"AT" + ty + sf + b"ATZ\nATZ\n" if sf else b"AT" + ty + b"\nATZ\n"
                            yield dict(spec=S.mk_spec(cmds, input=inp, bufsz=64), meta=dict(broken=1))


def enumerations(tier):
    yield "registration-orders", _sweep()


def prebuild(tier):
    fuzz.prebuild("c01", (1,))


def campaign(tier, seed, nworkers):
    """coverage-guided byte-level search with the streaming C01 monitor inside the target (world/fuzz_c01.c)"""
    return fuzz.campaign(ID, "c01", (1,), BUDGET[tier]["fuzz_s"], seed, nworkers, max_len=800, runs=BUDGET[tier].get("fuzz_runs"))


replay_artifact = fuzz.replay_artifact


def minimise(case, W, sig):
    from ..minimise import minimise_spec
    def still(sp):
        r = run(dict(spec=sp, meta=case.get("meta", {})), W)
        return r.violation is not None and r.violation[0] == sig
    return dict(spec=minimise_spec(case["spec"], still), meta=case.get("meta", {}))
