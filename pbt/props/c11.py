"""C11 - output is a sequence of whole units; the two state machines never interleave inside a unit (DESIGN 5, C11).

Metamorphic and attribution-free: the mixed run's output must be an interleaving AT UNIT BOUNDARIES of (a) the output of
the same input run alone and (b) the output of the accepted events processed alone, each in its own order."""
from .. import spec as S, events as E, gen as G, ref
from ..spec import INT, RO, RW, OK, DATA_OK, DATA_NEXT, NEXT, ERR, LIST, HEX_OK, HEX_ERR
from ..common import Result

ID = "C11"
LEVEL = "exploration"
WORLDS = [(q, "plain") for q in (1, 3)]
BUDGET = {"quick": dict(cases=1000), "thorough": dict(cases=30000)}
MIN_NONTRIVIAL = {"quick": 1000, "thorough": 15000}
BLOB = (400, 1500)
RULE = ("Hypothesis byte-backed generator: 1-4 command lines with multi-unit responses (DATA_NEXT loops with buffer edits, TEST with description, command "
        "lists, automatic READ) in LF and CRLF style, plus 1-10 READ/TEST events (automatic with 1-3 variables, and scripted multi-unit) on commands the lines cannot touch (line commands have 0-3 variables), triggered at "
        "generated service steps (event commands now and then only_test / disabled - flags that concern the input stream only); in a third of the cases command handlers return HOLD and cat_hold_exit is called with one status per case at generated steps and on stall; the events-only run must emit nothing but event units; write back-pressure including long refusal runs, read availability patterns, ring capacity 1 and 3, shared (even and odd size) and separate buffers. "
        "Three world runs per case: mixed, lines alone (eager io), accepted events alone (in acceptance order). Oracle: dynamic-programming match of the mixed output "
        "as an interleaving at token boundaries of the two solo outputs, each in its own order; command tokens byte-for-byte, each newline of an event token LF or CRLF; "
        "tokens are LF-terminated chunks (never finer than the library's emission units). Non-trivial = the mixed output contains event units strictly between "
        "command units and at least one write was refused; distinct by case hash.")
ASSUMPTIONS = ["events are triggered by harness actions only (no chains), event commands are disjoint from line commands and have no description (the newline before it mirrors the line in progress, so whether the text fits would depend on timing); in a third of the cases command handlers may return HOLD, released by cat_hold_exit with one status per case (at generated steps in the mixed run, on stall in both runs), so a held line's response does not depend on which request releases it",
               "payloads contain no CR/LF except the library's own newline before a TEST description (tokenised one level finer, which only makes the matcher more permissive)",
               "an unsolicited unit's newlines mirror the command line in progress and may be LF or CRLF independently"]
TECHNIQUE = "Hypothesis property-based testing; oracle = metamorphic interleaving match (dynamic programming) of the mixed run against the two solo runs on the real library"
LEVEL_TEXT = ("Metamorphic testing on the real code without attributing bytes to producers: nothing may be lost, duplicated, truncated or merged, whatever the trigger points and "
              "the back-pressure pattern are.")
LEVEL_NOTE = "Trusted: world harness, the token matcher, Hypothesis."
DESIGN_REF = "DESIGN.md section 5 C11"

CODES = [OK, DATA_OK, DATA_NEXT, DATA_NEXT, NEXT, ERR, LIST]
CODES_HOLD = CODES + [S.HOLD, S.HOLD]


def gen(d, tier):
    qcap = (1, 3)[d.below(2)]
    # event commands (never addressed by lines: names start with '#', lines only type '+' names)
    evs = []
    for i in range(d.rng(1, 3)):
        if d.below(2):
            evs.append(S.mk_cmd(b"#A%d" % i, "", [G.g_var(d, max_buf=5, callbacks=False, access=(RO, RW)) for _ in range(d.rng(1, 3))]))   # no description: its inner newline mirrors the line in progress and changes the text length
        else:
            c = S.mk_cmd(b"#S%d" % i, "rt", [G.g_var(d, max_buf=4, callbacks=False, access=(RO,))] if d.below(2) else [])
            for k in "rt":
                c["scripts"]["1" + k] = [S.mk_step(d.pick([DATA_NEXT, DATA_NEXT, DATA_OK, NEXT, OK, ERR]), d.below(3), d.pick(E.EV_TAGS)) for _ in range(d.rng(1, 6))]
            evs.append(c)
    for c in evs:
        # flags that concern the input stream only: an accepted event is delivered whatever they say
        if d.unlikely(1, 6):
            c["only_test"] = 1
        if d.unlikely(1, 8):
            c["disable"] = 1
    holds = d.unlikely(1, 3)       # a third of the cases: handlers may return HOLD, released from outside at generated steps
    lcs = []
    for j in range(d.rng(1, 3)):
        h = "".join(k for k in "wrnt" if d.chance(2, 3)) or "r"
        c = S.mk_cmd([b"+A", b"+BB", b"+C"][j], h, [G.g_var(d, max_buf=5, callbacks=False) for _ in range(d.rng(1, 3))] if d.chance(2, 3) else [],
                     desc=(b"help" if d.unlikely(1, 3) else None))
        for k in h:
            if d.chance(2, 3):
                c["scripts"]["0" + k] = [S.mk_step(d.pick(CODES_HOLD if holds else CODES), d.below(3) if k in "rt" else 0, d.pick([b"tag", b"x", b"Hello", b"0123456789"])) for _ in range(d.rng(1, 5))]
        lcs.append(c)
    cmds = evs + lcs
    nev = len(evs)
    inp = b""
    for _ in range(d.rng(1, 4)):
        c = d.pick(lcs)
        form = d.pick("nrwt")
        ln = b"AT" + c["name"] + {"n": b"", "r": b"?", "w": b"=" + G.g_args(d, c, True), "t": b"=?"}[form]
        inp += ln.replace(b"\n", b".").replace(b"\r", b".") + (b"\r\n" if d.below(2) else b"\n")
    actions = []
    step = 0
    for _ in range(d.rng(1, 10)):
        step += d.pick([0, 1, 2, 3, 5, 8, 13, 20, 35, 60, 100])
        actions.append([S.AT_STEP, step, S.WA_TRIG, d.below(nev), d.below(2), None])
    if holds:
        # one release status per case, so that a held line's result code does not depend on which request releases it; requests at
        # generated steps (often while an event unit is being formatted or written; outside a hold they have no effect), and a fallback
        # whenever the parser stalls
        st = d.below(2)
        step = 0
        for _ in range(d.rng(1, 8)):
            step += d.pick([1, 2, 3, 5, 8, 13, 20, 35, 60])
            actions.append([S.AT_STEP, step, S.WA_HOLDEXIT, st, 0, None])
        for k in range(1, 12):
            actions.append([S.AT_STALL, k, S.WA_HOLDEXIT, st, 0, None])
    ws = []
    for j in range(d.below(16)):
        ws.append(d.pick([0, 1, 1, 2, 3, 5, 9]) if j % 2 == 0 else d.pick([1, 1, 2, 3, 8, 25, 60]))
    uc = d.pick([16, 24, 32, 48])
    shared = d.below(2) == 0
    s = S.mk_spec(cmds, input=inp, qcap=qcap, shared=shared, bufsz=(2 * max(uc, 32) + d.below(2)) if shared else d.pick([48, 49, 64]), ubufsz=uc,
                  rs=G.g_sched(d, 6), ws=ws, actions=actions)
    return dict(spec=s, meta=dict(nev=nev))


def tokens(out):
    """LF-terminated chunks; an empty chunk is the leading newline of the next token. Returns list of (lead, body, nl)
    with lead/nl in {b'', b'\\n', b'\\r\\n'} and body without newline; plus the unterminated rest."""
    toks = []
    i = 0
    n = len(out)
    lead = b""
    while i < n:
        e = out.find(b"\n", i)
        if e < 0:
            return toks, out[i - len(lead):]
        chunk = out[i:e]
        nl = b"\n"
        if chunk.endswith(b"\r"):
            chunk = chunk[:-1]
            nl = b"\r\n"
        i = e + 1
        if chunk == b"" and lead == b"":
            lead = nl
            continue
        toks.append((lead, chunk, nl))
        lead = b""
    if lead:
        return toks, lead
    return toks, b""


def match(mixed, tc, tu):
    """is 'mixed' an interleaving at token boundaries of command tokens tc (exact) and event tokens tu (flexible newlines)?"""
    cbytes = [a + b + c for a, b, c in tc]
    n, m = len(tc), len(tu)
    reach = {(0, 0): {0}}
    best = (0, 0, 0)
    for i in range(n + 1):
        for j in range(m + 1):
            ps = reach.get((i, j))
            if not ps:
                continue
            for p in ps:
                if (i + j, p) > (best[0] + best[1], best[2]):
                    best = (i, j, p)
                if i < n:
                    tb = cbytes[i]
                    if mixed.startswith(tb, p):
                        reach.setdefault((i + 1, j), set()).add(p + len(tb))
                if j < m:
                    lead, body, nl = tu[j]
                    for l2 in ((b"\n", b"\r\n") if lead else (b"",)):
                        if not mixed.startswith(l2 + body, p):
                            continue
                        q = p + len(l2) + len(body)
                        for n2 in (b"\n", b"\r\n"):
                            if mixed.startswith(n2, q):
                                reach.setdefault((i, j + 1), set()).add(q + len(n2))
    return len(mixed) in reach.get((n, m), set()), best


def run(case, W):
    s = case["spec"]
    tm = W.run(s, "plain")
    if not tm.ok:
        return Result(violation=("crash", str(tm.crash)))
    if tm.reason != "quiescent":
        return Result(violation=("no-quiescence", "%s after %d steps" % (tm.reason, tm.q["steps"])))
    xv = [x for x in tm.xviol if x[1] == "refused-byte-not-reoffered"]
    if xv:
        return Result(violation=("refused-byte-not-reoffered", str(xv[:2])))
    accepted = [(a.args[0], a.args[1]) for a in tm.apis if a.name == "trig" and a.result == 0]
    # lines alone
    sc = S.clone(s)
    sc["actions"] = [a for a in s["actions"] if a[0] == S.AT_STALL and a[2] == S.WA_HOLDEXIT]
    sc["rs"] = []
    sc["ws"] = []
    tcr = W.run(sc, "plain")
    # accepted events alone, in acceptance order, one at a time
    su = S.clone(s)
    su["input"] = b""
    su["rs"] = []
    su["ws"] = []
    su["actions"] = [[S.AT_STEP, 4000 * k, S.WA_TRIG, ci, ty, None] for k, (ci, ty) in enumerate(accepted)]
    tur = W.run(su, "plain")
    for t in (tcr, tur):
        if not t.ok:
            return Result(violation=("crash", str(t.crash)), runs=3)
        if t.reason != "quiescent":
            return Result(violation=("no-quiescence", "solo run: %s" % t.reason), runs=3)
    if any(a.name == "trig" and a.result != 0 for a in tur.apis):
        return Result(violation=("harness-solo-run", "an event was refused in the events-only run"), runs=3)
    tc, rc = tokens(tcr.out)
    tu, ru = tokens(tur.out)
    if rc or ru:
        return Result(violation=("partial-unit", "a solo run's output does not end with a newline: %r %r" % (rc, ru)), runs=3)
    # structure of the units themselves (the matcher compares two runs of the same code, so it cannot see a change that is
    # consistent in both): every event unit starts with a newline, every command response starts with one
    for lead, body, nl in tu:
        if body.startswith(b"#") and not lead:
            return Result(violation=("unit-structure", "event unit %r has no leading newline (events-alone output %r)" % (body, tur.out)), runs=3)
    for lead, body, nl in tu:
        if not body.startswith(b"#"):
            return Result(violation=("unit-structure", "the events-only run (no input at all) emitted %r, which is no event unit (output %r)" % (body, tur.out)), runs=3)
    if tc and not tc[0][0]:
        return Result(violation=("unit-structure", "first command unit %r has no leading newline" % (tc[0][1],)), runs=3)
    ok, best = match(tm.out, tc, tu)
    if not ok:
        i, j, p = best
        return Result(violation=("bad-interleaving", "mixed output is not an interleaving at unit boundaries: matched %d command and %d event tokens up to offset %d; mixed=%r lines-alone=%r events-alone=%r" % (i, j, p, tm.out, tcr.out, tur.out)), runs=3)
    # classification: are event units strictly between command units?
    labels = ["capacity-%d" % s["qcap"]]
    first_ev = last_ev = None
    pos_tokens, _ = tokens(tm.out)
    kinds = [t[1].startswith(b"#") for t in pos_tokens]
    between = any(kinds[k] and any(not x for x in kinds[:k]) and any(not x for x in kinds[k + 1:]) for k in range(len(kinds)))
    if between:
        labels.append("event-between-command-units")
    if tm.q["refused_w"]:
        labels.append("back-pressure")
    if len(accepted) >= 2:
        labels.append("several-events")
    if any(t[0] == b"" for t in tc):
        labels.append("command-list-or-description")
    if any(h.code == DATA_NEXT for h in tm.handlers):
        labels.append("multi-unit-response")
    if any(h.code == S.HOLD for h in tm.handlers):
        labels.append("hold")
    return Result(labels=labels, nontrivial=(between and tm.q["refused_w"] >= 1), runs=3)


def minimise(case, W, sig):
    from ..minimise import minimise_spec

    def still(sp):
        r = run(dict(spec=sp, meta=case.get("meta", {})), W)
        return r.violation is not None and r.violation[0] == sig
    return dict(spec=minimise_spec(case["spec"], still, max_tests=1200), meta=case.get("meta", {}))
