"""C12 - behaviour does not depend on how input and output readiness are scheduled (DESIGN 5, C12).

Differential on the real code: the eager run (io always ready) against the same case under a generated or enumerated
schedule of read availability and write refusals."""
from .. import spec as S, gen as G, ref, fuzz
from ..spec import OK, DATA_OK, DATA_NEXT, NEXT, ERR, LIST, HEX_OK, HEX_ERR
from ..common import Result

ID = "C12"
LEVEL = "exploration"
WORLDS = [(1, "plain"), (3, "plain"), (8, "plain")]
BUDGET = {"quick": dict(cases=900, fuzz_s=90, fuzz_runs=6000), "thorough": dict(cases=20000, fuzz_s=90)}
MIN_NONTRIVIAL = {"quick": 2000, "thorough": 30000}
BLOB = (300, 1300)
RULE = ("Generated (Hypothesis): tables of 1-8 commands (all handler subsets, variables of all types with callbacks that may fail, multi-step return-code "
        "scripts with buffer edits, command lists, descriptions), 1-6 valid or damaged lines with LF/CRLF and stray CRs, capacity 6-64, no events; schedule = "
        "alternating run lengths 'ready r1, not ready n1, ...' for reads and 'accept a1, refuse f1 (as 0, -1 or 2), ...' for writes with runs up to 40. "
        "Enumerated: on fixed two-line inputs every placement of one refusal and of two refusals (read x read, write x write, read x write) over all io attempts, "
        "and the input cut at every byte boundary by a 40-step pause - exhaustive for that space; plus a libFuzzer campaign (world/fuzz_c12.c: the case is decoded twice from the same bytes, eager and scheduled, and compared through running hashes of output, callbacks and variables inside the target). Oracle: identical output byte stream, identical handler / "
        "variable-callback sequence with identical arguments, identical final variables, every refused byte re-offered unchanged. Non-trivial = the schedule "
        "refuses at least one read while a line is in progress and at least one write; distinct by case hash.")
ASSUMPTIONS = ["events only when triggered by handler scripts and at most 8 (3) per case on the capacity-8 (capacity-3) ring, so acceptance cannot depend on timing (DESIGN 4.10); with events the command units and the event payloads are compared per producer; no HOLD (release timing is C14's)",
               "io read reports 'nothing' as 0 without touching *ch; write refusals are 0, -1 or 2"]
TECHNIQUE = "Hypothesis property-based testing + exhaustive enumeration of <=2 refusal placements + libFuzzer campaign; oracle = differential between the eager schedule and the generated schedule on the real library"
LEVEL_TEXT = ("Differential testing of the real code against itself under different io schedules; small schedule perturbations (every placement of up to two "
              "refusals, every cut point) are enumerated exhaustively on fixed inputs, larger ones are generated.")
LEVEL_NOTE = "Trusted: world harness (schedule, trace), Hypothesis. The eager run is the reference, so an error common to all schedules is invisible here (other properties cover it)."
DESIGN_REF = "DESIGN.md section 5 C12"

CODES = [OK, DATA_OK, DATA_NEXT, NEXT, ERR, LIST, HEX_OK, HEX_ERR, 9]


def g_sched(d):
    n = d.below(24)
    return [d.pick([0, 1, 1, 2, 3, 5, 9, 40]) if j % 2 else d.pick([0, 1, 1, 2, 3, 7, 20]) for j in range(n)]


def gen(d, tier):
    rs, ws = g_sched(d), g_sched(d)
    cc = d.pick([6, 8, 10, 12, 16, 24, 32, 48, 64])
    cmds = G.g_table(d, 1, 8, maxvars=3, codes=CODES)
    groups = G.g_groups(d, cmds)
    inp, lines = G.g_input(d, cmds, 1, 6, valid_bias=d.chance(3, 4), cap=cc)
    shared = d.below(2) == 0
    s = S.mk_spec(groups=groups, input=inp, shared=shared, bufsz=(2 * cc + d.below(2)) if shared else cc, ubufsz=d.pick([8, 9, 16, 33]), rs=rs, ws=ws, flags=0)
    if d.chance(1, 3):
        # handler-triggered events: acceptance is a function of the line (at most 8 triggers, ring capacity 8), only
        # the interleaving with command units may depend on the schedule
        ev = S.mk_cmd(b"~EV", "r" if d.below(2) else "", [S.mk_var(S.INT, 2, S.RO, d.bytes(2))] if d.chance(3, 4) else [],
                      scripts={"1r": [S.mk_step(DATA_OK, d.below(3), b"~EVtag")] * 3})
        if not ev["vars"]:
            ev["h"] = "r"
        s["groups"][-1]["cmds"].append(ev)
        ei = len(S.all_cmds(s)) - 1
        ntrig = 0
        ring = d.pick([8, 3])
        for c in S.all_cmds(s)[:-1]:
            for st in c["scripts"].values():
                for x in st:
                    if ntrig < ring and d.chance(1, 2):
                        x["act"], x["a1"], x["a2"] = S.WA_TRIG, ei, 0
                        ntrig += 1
        if ntrig:
            s["qcap"] = ring
    if (len(S.all_cmds(s)) + 3) // 4 > S.ccap(s):
        return None
    return dict(spec=s)


def producers(out):
    """split an output stream into the command units (byte-exact) and the event units (payload only; their
    newlines mirror the command line in progress and therefore depend on timing)"""
    from ..trace import split_units
    units, rest = split_units(out)
    cmd, ev = [], []
    for kind, payload, nl in units:
        if payload.startswith(b"~EV"):
            ev.append(payload)
        else:
            cmd.append((kind, payload, nl))
    return cmd, ev, rest


def compare_with_events(s, t0, t1):
    a0 = [(a.name, a.args, a.result) for a in t0.apis]
    a1 = [(a.name, a.args, a.result) for a in t1.apis]
    if a0 != a1:
        return ("api-results-differ", "input %r rs=%r ws=%r: trigger results %r vs %r" % (s["input"], s["rs"], s["ws"], a0, a1))
    c0, e0, r0 = producers(t0.out)
    c1, e1, r1 = producers(t1.out)
    if r0 or r1 or c0 != c1 or e0 != e1:
        return ("output-differs", "input %r rs=%r ws=%r: eager output %r, scheduled output %r (command units %r vs %r, event units %r vs %r)" % (
            s["input"], s["rs"], s["ws"], t0.out, t1.out, c0, c1, e0, e1))
    return None


def observable(t):
    return (t.out, t.callbacks(), t.final_vars())


def run(case, W):
    s = case["spec"]
    eager = S.clone(s)
    eager["rs"] = []
    eager["ws"] = []
    t0 = W.run(eager, "plain")
    t1 = W.run(s, "plain")
    for t in (t0, t1):
        if not t.ok:
            return Result(violation=("crash", str(t.crash)), runs=2)
        xv = [x for x in t.xviol if x[1] == "refused-byte-not-reoffered"]
        if xv:
            return Result(violation=("refused-byte-not-reoffered", str(xv[:2])), runs=2)
        if t.reason != "quiescent":
            return Result(violation=("no-quiescence", "%s (rs=%r ws=%r)" % (t.reason, s["rs"], s["ws"])), runs=2)
    has_events = any(a.name == "trig" for a in t0.apis) or any(a.name == "trig" for a in t1.apis)
    if has_events:
        v = compare_with_events(s, t0, t1)
        if v:
            return Result(violation=v, runs=2)
    elif t0.out != t1.out:
        return Result(violation=("output-differs", "input %r: eager output %r, under rs=%r ws=%r output %r" % (s["input"], t0.out, s["rs"], s["ws"], t1.out)), runs=2)
    if has_events:
        ei = len(S.all_cmds(s)) - 1

        def per_fsm(t):
            cb = t.callbacks()
            return ([c for c in cb if (c[0] == "H" and c[1] == "c") or (c[0] == "V" and c[1] != ei)],
                    [c for c in cb if (c[0] == "H" and c[1] == "u") or (c[0] == "V" and c[1] == ei)])
        if per_fsm(t0) != per_fsm(t1):
            return Result(violation=("callbacks-differ", "input %r rs=%r ws=%r: per-FSM callback sequences differ: eager %r scheduled %r" % (s["input"], s["rs"], s["ws"], per_fsm(t0), per_fsm(t1))), runs=2)
    elif t0.callbacks() != t1.callbacks():
        return Result(violation=("callbacks-differ", "input %r rs=%r ws=%r: eager %r scheduled %r" % (s["input"], s["rs"], s["ws"], t0.callbacks(), t1.callbacks())), runs=2)
    if t0.final_vars() != t1.final_vars():
        return Result(violation=("variables-differ", "input %r rs=%r ws=%r" % (s["input"], s["rs"], s["ws"])), runs=2)
    # every output byte delivered exactly once: accepted writes == output length is by construction of the trace;
    # a refused byte must be re-offered unchanged (world invariant 'refused-byte-not-reoffered', reported through xviol)
    labels = []
    if has_events:
        labels.append("handler-triggered-events")
    q = t1.q
    if q["refused_r"]:
        labels.append("read-refusals")
    if q["refused_w"]:
        labels.append("write-refusals")
    if t1.handlers:
        labels.append("handlers")
    if len(t1.out) > 12:
        labels.append("multi-unit-output")
    nt = q["refused_r_midline"] >= 1 and q["refused_w"] >= 1
    return Result(labels=labels, nontrivial=nt, runs=2)


# ---------------------------------------------------------------- enumerated placements

def _fixed_specs():
    v = S.mk_var(S.INT, 1, S.RW, b"\x07", name=b"x", rcb=1, wcb=1)
    c1 = S.mk_cmd(b"+R", "wrt", [v], desc=b"d", scripts={"0r": [S.mk_step(DATA_NEXT, 2, b"t"), S.mk_step(DATA_OK)]})
    c2 = S.mk_cmd(b"+RUN", "n", [], scripts={"0n": [S.mk_step(NEXT), S.mk_step(OK)]})
    yield S.mk_spec([c1, c2], input=b"AT+R?\r\nAT+R=3\n", bufsz=64)
    yield S.mk_spec([c1, c2], input=b"AT+R=?\nAT+RU\n", bufsz=64)
    yield S.mk_spec([c1, c2], input=b"AT+Rx=1ATZ\nat+r=300\r\n", bufsz=64)


def _placements():
    from ..worldclient import Worlds
    W = Worlds()
    try:
        for base in _fixed_specs():
            t = W.run(base, "plain")
            nr = len(t.reads) + 4
            nw = len(t.writes)
            for k in range(nr):
                yield _with(base, [k, 1], [])
                yield _with(base, [k, 40], [])            # input cut at byte boundary k by a long pause
            for k in range(nw):
                yield _with(base, [], [k, 1])
            for k1 in range(0, nr):
                for k2 in range(0, nr - k1, 3):
                    yield _with(base, [k1, 1, k2, 1], [])
            for k1 in range(0, nw):
                for k2 in range(0, nw - k1, 3):
                    yield _with(base, [], [k1, 1, k2, 1])
            for k1 in range(0, nr, 2):
                for k2 in range(0, nw, 2):
                    yield _with(base, [k1, 1], [k2, 1])
    finally:
        W.close()


def _with(base, rs, ws):
    s = S.clone(base)
    s["rs"] = rs
    s["ws"] = ws
    return dict(spec=s)


def enumerations(tier):
    yield "refusal-placements", _placements()


def prebuild(tier):
    fuzz.prebuild("c12", (1,))


def campaign(tier, seed, nworkers):
    """coverage-guided search over (descriptor, input bytes, schedule bytes) with the eager-vs-scheduled differential inside the target"""
    return fuzz.campaign(ID, "c12", (1,), BUDGET[tier]["fuzz_s"], seed, nworkers, max_len=800, runs=BUDGET[tier].get("fuzz_runs"))


replay_artifact = fuzz.replay_artifact


def minimise(case, W, sig):
    from ..minimise import minimise_spec

    def still(sp):
        if (len(S.all_cmds(sp)) + 3) // 4 > S.ccap(sp):
            return False
        r = run(dict(spec=sp), W)
        return r.violation is not None and r.violation[0] == sig
    sp = case["spec"]
    # first try to shorten the schedules themselves
    for key in ("rs", "ws"):
        while len(sp[key]) > 2:
            c = S.clone(sp)
            c[key] = c[key][:-2]
            if still(c):
                sp = c
            else:
                break
    return dict(spec=minimise_spec(sp, still, max_tests=600))
