"""C17 - with a real mutex, triggers from other threads are race-free and not lost (DESIGN 5, C17).

Hypothesis generates the configuration; world/threads_c17.c (ThreadSanitizer build, real pthreads, pthread mutex behind the
mutex interface) runs it.  The OS scheduler is not owned by the harness: this is stress exploration helped by TSan's
happens-before analysis, not a systematic schedule search."""
import os
import subprocess
from .. import spec as S, build
from ..common import Result

ID = "C17"
LEVEL = "exploration"
ENGINE = "tsan-threads"
WORLDS = []
BUDGET = {"quick": dict(cases=7), "thorough": dict(cases=250)}
MIN_NONTRIVIAL = {"quick": 20, "thorough": 800}
BLOB = (100, 400)
NO_SHRINK = True          # thread failures are statistical: the failing configuration is reported as generated
REPLAY_TRIES, REPLAY_NEED = 20, 1
# thread timing decides whether a run hits a window; when a replay does not, three or more independent generated cases that failed the
# same way in one campaign are accepted instead (one watchdog / accounting failure could be load, three are not)
CORROBORATED = {"deadlock": 3, "lost-or-duplicated-event": 3}


def self_evident(sig, text):
    """a ThreadSanitizer report whose racing access lies in the library is evidence by itself: it names two conflicting accesses
    that were not ordered by the mutex in an execution that really happened, whether or not the schedule recurs on replay"""
    import re
    return sig == "data-race" and re.search(r"SUMMARY: ThreadSanitizer: data race \S*/src/cat\.c:", text) is not None
CAPS = (1, 2, 3, 8)
RULE = ("Hypothesis generates configurations: ring capacity 1/2/3/8 (one ThreadSanitizer executable each), 1-8 producer threads, each with an op list (trigger "
        "READ/TEST through all three trigger functions, cat_is_unsolicited_buffer_full, cat_is_busy, cat_is_hold, cat_hold_exit OK/ERROR, sched_yield and "
        "short-sleep hints) repeated 50-600 times, command traffic for the service thread including lines that enter HOLD, and a write back-pressure pattern. "
        "The service thread calls cat_service concurrently; each producer triggers on its own command. Oracle: ThreadSanitizer reports no data race (exit code), "
        "every API call returns a documented status, and after joining and draining delivered == accepted for every producer. Non-trivial = at least 2 "
        "producers, each with >=1 accepted and >=1 rejected (BUFFER_FULL) trigger; distinct by configuration hash.")
ASSUMPTIONS = ["interleavings are those the OS scheduler produces (16 cores, randomised yields); not a systematic schedule search",
               "TSan's happens-before analysis reports an unlocked access even when the bad interleaving does not occur, but only on executed paths",
               "cat_get_processed_command / cat_is_unsolicited_event_buffered are documented as unprotected and are not called from producers"]
TECHNIQUE = "Hypothesis-generated multi-threaded stress configurations executed under ThreadSanitizer with a real pthread mutex; oracle = no race report + accepted == delivered per producer"
LEVEL_TEXT = ("Stress exploration: generated thread/op configurations run on real threads under ThreadSanitizer; lost or duplicated events show up as a per-producer count "
              "mismatch, unlocked accesses as race reports. Replays are statistical.")
LEVEL_NOTE = "Trusted: ThreadSanitizer, pthreads, the thread harness (its own counters are single-writer). The scheduler is not controlled."
DESIGN_REF = "DESIGN.md section 5 C17"


def tsan_bin(qcap):
    def cmd(repo, world):
        return ["clang", "-std=gnu99", "-g", "-O1", "-fsanitize=thread", "-fno-omit-frame-pointer", "-DCAT_UNSOLICITED_CMD_BUFFER_SIZE=%d" % qcap,
                "-I" + os.path.join(repo, "src"), os.path.join(world, "threads_c17.c"), os.path.join(repo, "src", "cat.c"), "-lpthread"]
    return build.ensure_custom("threads_c17_q%d" % qcap, cmd)


def prebuild(tier):
    from concurrent.futures import ThreadPoolExecutor
    with ThreadPoolExecutor(max_workers=4) as ex:
        list(ex.map(tsan_bin, CAPS))


def gen(d, tier):
    qcap = CAPS[d.below(4)]
    nprod = d.weighted([(1, 1), (3, 2), (3, 3), (3, 4), (1, 6), (1, 8)])
    prods = []
    for p in range(nprod):
        n = d.rng(1, 8)
        ops = [d.weighted([(6, 0), (4, 1), (2, 9), (2, 10), (2, 2), (1, 3), (1, 4), (1, 5), (1, 6), (2, 7), (1, 8), (3, 11)]) for _ in range(n)]
        if not any(o in (0, 1, 9, 10, 11) for o in ops):
            ops[0] = 0
        prods.append(dict(repeat=d.pick([50, 100, 200, 300, 600]), ops=ops))
    lines = b""
    for _ in range(d.below(8)):
        lines += d.pick([b"AT+W=1\n", b"AT+W=h\n", b"AT+W=hold\r\n", b"AT\n", b"ATX\n", b"AT+W=22\n"])
    ws = [d.pick([1, 2, 3, 5, 9]) for _ in range(d.pick([0, 2, 4, 6]))]
    return dict(qcap=qcap, prods=prods, input=lines, ws=ws)


def run(case, W):
    exe = tsan_bin(case["qcap"])
    cfg = ["PROD %d" % len(case["prods"])]
    for p, pr in enumerate(case["prods"]):
        cfg.append("OPS %d %d %s" % (p, pr["repeat"], " ".join(map(str, pr["ops"]))))
    cfg.append("INPUT %s" % (case["input"].hex() if case["input"] else "-"))
    if case["ws"]:
        cfg.append("WS " + " ".join(map(str, case["ws"])))
    cfg.append("RUN")
    env = dict(os.environ, TSAN_OPTIONS="halt_on_error=1:exitcode=66:report_signal_unsafe=0:report_thread_leaks=0")
    try:
        r = subprocess.run([exe], input=("\n".join(cfg) + "\n").encode(), capture_output=True, env=env, timeout=180)
    except subprocess.TimeoutExpired:
        # a wall-clock budget hit is inconclusive, never a violation (a real deadlock is reported by the in-process watchdog)
        return Result(skipped=True, labels=["timeout-inconclusive"])
    out = r.stdout.decode(errors="replace")
    err = r.stderr.decode(errors="replace")
    if "RESULT deadlock" in out:
        return Result(violation=("deadlock", "no thread made progress for 10 s (a lock that is never released?): %s" % out[-400:]))
    if r.returncode == 66 or "ThreadSanitizer" in err:
        return Result(violation=("data-race", err[-2500:]))
    rows = [l.split() for l in out.splitlines() if l.startswith("P ")]
    if r.returncode not in (0, 3) or not rows:
        return Result(violation=("crash", "exit %d: %s %s" % (r.returncode, out[-500:], err[-1500:])))
    bad = [x for x in rows if x[3] != x[7] or x[9] != "0"]
    if bad or "RESULT ok" not in out:
        return Result(violation=("lost-or-duplicated-event", "per producer accepted/delivered mismatch or undocumented status: %s" % out))
    both = sum(1 for x in rows if int(x[3]) >= 1 and int(x[5]) >= 1)
    labels = ["capacity-%d" % case["qcap"], "producers-%d" % len(rows)]
    if "HOLDS 0" not in out:
        labels.append("hold")
    if case["ws"]:
        labels.append("back-pressure")
    return Result(labels=labels, nontrivial=(len(rows) >= 2 and both >= 2))


def minimise(case, W, sig):
    return case
