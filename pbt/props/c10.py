"""C10 - handler return codes drive the response exactly as documented (DESIGN 5, C10).

Oracle: the CodeTable interpreter inside ref.Model predicts, for a scripted sequence of return codes, the handler
invocations, the text each invocation sees (freshly formatted), the data units and the final result code; compared
with the trace exactly (bytes and callback sequence)."""
import itertools
from .. import spec as S, gen as G, ref
from ..spec import INT, UINT, HEX, BHEX, STR, RW, RO, WO, OK, DATA_OK, DATA_NEXT, NEXT, ERR, HOLD, HEX_OK, HEX_ERR, LIST
from ..common import Result

ID = "C10"
LEVEL = "exploration"
WORLDS = [(1, "plain")]
BUDGET = {"quick": dict(cases=1200, enum_len=6), "thorough": dict(cases=45000, enum_len=9)}
MIN_NONTRIVIAL = {"quick": 3000, "thorough": 30000}
EXHAUSTIVE = {"quick": False, "thorough": False}
BLOB = (300, 1000)
TERMINAL = [OK, DATA_OK, ERR, HOLD, HEX_OK, HEX_ERR, LIST, 9, -7]
RULE = ("Enumerated: every effective return-code sequence (k x {NEXT, DATA_NEXT} then one of OK, DATA_OK, ERROR, HOLD, HOLD_EXIT_OK, "
        "HOLD_EXIT_ERROR, PRINT_CMD_LIST_OK, 9, -7) up to length 6 (quick) / 9 (thorough) for the read, test, write and run handler in "
        "the command state machine and the read and test handler in the unsolicited one (HOLD only in the command FSM, released at "
        "once), two buffer-edit patterns (keep/replace/append) per sequence and, up to length 4, a third in which the handler reports the full capacity or zero as *data_size while leaving the text, a variable poked between iterations so that re-formatting "
        "is observable; this sub-sweep is exhaustive for that space. Generated (Hypothesis): longer sequences, 0-3 variables of all types, "
        "variable read/write callbacks failing at each position, both FSMs, small command-list tables. Non-trivial = sequence length >= 2, or a "
        "buffer edit followed by a re-invocation, or a variable-callback failure at position >= 1; distinct by case hash.")
ASSUMPTIONS = ["HOLD returned by a handler running in the unsolicited FSM is outside the statement (DESIGN 4.6) and not generated",
               "HOLD in the command FSM is released by cat_hold_exit(OK) as soon as the parser stalls; hold timing is C14's",
               "handlers keep the buffer NUL-terminated inside max_data_size; tags contain no CR/LF",
               "events are triggered with no command line in progress, so their newlines are LF"]
TECHNIQUE = "exhaustive enumeration of return-code sequences up to a bound + Hypothesis property-based testing; oracle = table-driven reference interpreter (CodeTable) compared byte-exactly with the io and callback trace"
LEVEL_TEXT = ("Bounded-exhaustive enumeration plus generated search against a table-driven reference interpreter of the documented return-code semantics; "
              "the enumerated sub-space (all sequences up to the stated length for each handler kind and FSM) is covered completely, longer ones are sampled.")
LEVEL_NOTE = "Trusted: world harness, CodeTable/Formatter reference pieces, Hypothesis."
DESIGN_REF = "DESIGN.md section 5 C10"

EDIT_TAGS = [b"", b"tagA", b"+X: 7"]


def base_cmds(kind, fsm):
    v = S.mk_var(INT, 1, RW, b"\x05", name=b"x")
    c = S.mk_cmd(b"+C", kind if kind in "wn" else kind, [v] if kind != "n" else [], desc=None)
    if kind == "w":
        c["h"] = "w"
    other = S.mk_cmd(b"+O", "nr", [])
    return [c, other]


def enum_case(kind, fsm, seq, pattern):
    cmds = base_cmds(kind, fsm)
    steps = []
    for j, code in enumerate(seq):
        e = (j + pattern) % 3
        if pattern == 2:
            e = (3, 4, 1)[j % 3]      # handler reports the full capacity / zero as the length, text untouched
        st = S.mk_step(code, e if kind in "rt" else 0, EDIT_TAGS[e % 3] if kind in "rt" else b"")
        if kind in "rt" and j % 2 == pattern % 2:
            st["act"], st["a1"], st["a2"], st["a3"] = S.WA_POKE, 0, 0, bytes([(7 + 3 * j) & 0x7F])
        steps.append(st)
    cmds[0]["scripts"]["%d%s" % (fsm, kind)] = steps
    actions = []
    if fsm == 1:
        inp = b""
        actions.append([S.AT_STEP, 0, S.WA_TRIG, 0, 0 if kind == "r" else 1, None])
    else:
        inp = {"w": b"AT+C=3\n", "r": b"AT+C?\n", "n": b"AT+C\n", "t": b"AT+C=?\n"}[kind]
        if HOLD in seq:
            actions.append([S.AT_STALL, 1, S.WA_HOLDEXIT, 0, 0, None])
    s = S.mk_spec(cmds, input=inp, bufsz=128, actions=actions)
    return dict(spec=s, meta=dict(kind=kind, fsm=fsm, seq=list(seq)))


def _enum(maxlen):
    for kind, fsm in (("r", 0), ("t", 0), ("w", 0), ("n", 0), ("r", 1), ("t", 1)):
        for L in range(1, maxlen + 1):
            for pre in itertools.product([NEXT, DATA_NEXT], repeat=L - 1):
                for term in TERMINAL:
                    if term == HOLD and fsm == 1:
                        continue
                    for pattern in (0, 1, 2):
                        if kind in "wn" and pattern >= 1:
                            continue
                        if pattern == 2 and L > 4:
                            continue
                        yield enum_case(kind, fsm, list(pre) + [term], pattern)


def enumerations(tier):
    yield "code-sequences<=%d" % BUDGET[tier]["enum_len"], _enum(BUDGET[tier]["enum_len"])


def gen(d, tier):
    kind = d.pick("rtwn")
    fsm = d.below(2) if kind in "rt" else 0
    nv = d.weighted([(2, 0), (4, 1), (3, 2), (1, 3)]) if kind != "n" else d.below(2)
    vs = [G.g_var(d, max_buf=6, fails=False) for _ in range(nv)]
    fail_pos = None
    if vs and d.chance(1, 3):
        fail_pos = d.below(len(vs))
        fv = vs[fail_pos]
        if kind in "r":
            fv["rcb"], fv["rfail"] = 1, d.rng(1, 3)
        elif kind == "w":
            fv["wcb"], fv["wfail"] = 1, 1
    c = S.mk_cmd(d.pick([b"+C", b"+CMD", b"X"]), kind + "".join(k for k in "wrnt" if k != kind and d.below(3) == 0), vs,
                 desc=(b"descr" if d.unlikely(1, 4) else None), need_all=0)
    codes_mid = [NEXT, DATA_NEXT]
    L = d.weighted([(2, 1), (3, 2), (3, 3), (2, d.rng(4, 8)), (1, d.rng(9, 16))])
    seq = [d.pick(codes_mid) for _ in range(L - 1)] + [d.pick([t for t in TERMINAL if not (t == HOLD and fsm == 1)])]
    steps = []
    for j, code in enumerate(seq):
        st = S.mk_step(code, d.weighted([(3, 0), (3, 1), (3, 2), (1, 3), (1, 4)]) if kind in "rt" else 0, d.pick(G.TAGS) if kind in "rt" else b"")
        if vs and d.chance(1, 3):
            k = d.below(len(vs))
            pv = d.bytes(vs[k]["size"])
            if vs[k]["type"] == STR:
                pv = bytes(x for x in pv if x not in (10, 13))
            st["act"], st["a1"], st["a2"], st["a3"] = S.WA_POKE, 0, k, pv
        steps.append(st)
    c["scripts"]["%d%s" % (fsm, kind)] = steps
    others = [G.g_cmd(d, G.g_name(d), maxvars=1, scripts=False, var_kw=dict(fails=False, callbacks=False)) for _ in range(d.below(3))]
    for o in others:
        o["implicit"] = 0
    cmds = [c] + others
    cc = d.pick([24, 32, 48, 64, 128])
    actions = []
    if fsm == 1:
        inp = b""
        actions.append([S.AT_STEP, 0, S.WA_TRIG, 0, 0 if kind == "r" else 1, None])
    else:
        if kind == "w":
            args = G.g_args(d, c, True) if vs else d.pick([b"", b"1", b"abc"])
            inp = b"AT" + c["name"] + b"=" + args
        else:
            inp = b"AT" + c["name"] + {"r": b"?", "n": b"", "t": b"=?"}[kind]
        inp += b"\r\n" if d.below(3) == 0 else b"\n"
        if HOLD in seq:
            actions.append([S.AT_STALL, 1, S.WA_HOLDEXIT, d.below(2), 0, None])
    shared = d.below(2) == 0
    s = S.mk_spec(cmds, input=inp, shared=shared, bufsz=2 * cc if shared else cc, ubufsz=cc, ws=G.g_sched(d, 8), actions=actions)
    return dict(spec=s, meta=dict(kind=kind, fsm=fsm, seq=seq, fail_pos=fail_pos))


def run(case, W):
    s = case["spec"]
    meta = case["meta"]
    t = W.run(s, "plain")
    if not t.ok:
        return Result(violation=("crash", str(t.crash)))
    if t.reason != "quiescent":
        return Result(violation=("no-quiescence", t.reason))
    m = ref.Model(s)
    try:
        if meta["fsm"] == 1:
            p = m.event(0, 0 if meta["kind"] == "r" else 1, b"\n")
            exp_out = bytes(p.out)
        else:
            raw = ref.split_lines(s["input"])[0][0]
            p = m.line(raw)
            exp_out = bytes(p.out)
            if p.hold:
                st = [a for a in s["actions"] if a[2] == S.WA_HOLDEXIT]
                exp_out += p.nl + (b"ERROR" if st and st[0][3] else b"OK") + p.nl
    except ref.Unknown:
        return Result(skipped=True)
    if t.out != exp_out:
        return Result(violation=("output", "%s handler (fsm %d) codes %r: expected output %r, got %r" % (meta["kind"], meta["fsm"], meta["seq"], exp_out, t.out)))
    got = []
    for k, e in t.events:
        if k == "H":
            if e.kind in "rt":
                got.append(("H", e.fsm, e.ci, e.kind, e.seen, e.after, e.code))
            elif e.kind == "w":
                got.append(("H", e.fsm, e.ci, e.kind, e.seen, e.args, e.code))
            else:
                got.append(("H", e.fsm, e.ci, e.kind, b"", 0, e.code))
        elif k == "V":
            got.append(("V", e.ci, e.vi, e.kind, e.size, e.ret != 0))
    if got != p.cbs:
        return Result(violation=("callbacks", "%s handler (fsm %d) codes %r: expected callbacks %r, got %r" % (meta["kind"], meta["fsm"], meta["seq"], p.cbs, got)))
    fv = t.final_vars()
    for key, val in m.data.items():
        if key in m.unknown:
            continue
        if not ref.same_value(m.cs[key[0]]["vars"][key[1]], val, fv[key]):
            return Result(violation=("variables", "variable %r expected %r got %r" % (key, bytes(val), fv[key])))
    ninv = len([c for c in p.cbs if c[0] == "H"])
    labels = ["kind-%s%d" % (meta["kind"], meta["fsm"]), "invocations-%s" % (ninv if ninv < 4 else "4+")]
    seq = meta["seq"]
    nt = ninv >= 2
    vfail = [c for c in p.cbs if c[0] == "V" and c[5]]
    if vfail:
        labels.append("varcb-failed")
        if meta.get("fail_pos"):
            nt = True
    if p.listed:
        labels.append("cmd-list")
    if p.hold:
        labels.append("hold")
    if p.units:
        labels.append("data-units")
    return Result(labels=labels, nontrivial=nt)


def minimise(case, W, sig):
    return case
