"""C06 - handlers see exactly the sent arguments; over-long lines are rejected, not cut (DESIGN 5, C06)."""
from .. import spec as S, gen as G, ref
from ..spec import INT, UINT, HEX, BHEX, STR, RW, RO, WO
from ..common import Result

ID = "C06"
LEVEL = "exploration"
WORLDS = [(1, "san")]
BUDGET = {"quick": dict(cases=2400), "thorough": dict(cases=75000)}
MIN_NONTRIVIAL = {"quick": 2000, "thorough": 30000}
BLOB = (300, 1200)
RULE = ("Hypothesis byte-backed generator: a line-target command (write handler, 0-3 variables, implicit-write variants, read/test handlers, "
        "description) and an event-target command (read/test handlers, variables) in a shared or separate buffer layout; command capacity c "
        "in 6-520 or placed -2..+2 around the length of the command's READ/TEST text; 1-4 lines: WRITE lines whose argument bytes range over "
        "all values except LF (NUL, CR, high bytes, mixed case) with length from {0,1,c-3..c+2,2c,3c} or uniform, READ and TEST lines; "
        "READ/TEST events triggered at generated steps so handlers run from both state machines. Oracle: write handler data/size/NUL/args_num, "
        "read/test handler text/size/capacity/pointer, and for arguments of length >= capacity: ERROR with no handler, no variable callback, "
        "no variable change. Non-trivial = an argument of length >= c-2, or containing CR/NUL/high bytes, or a read/test handler that saw a text "
        "within 2 bytes of its capacity; distinct by case hash.")
ASSUMPTIONS = ["handlers return OK / DATA_OK, or NEXT / DATA_NEXT after editing the buffer or the reported length (what the next invocation sees must be fresh; the emitted units are C10's)",
               "lines never address the event-target command, so the text an event handler sees does not depend on timing",
               "the newline inside an unsolicited TEST text (before the description) may be LF or CRLF (it mirrors the command line in progress)",
               "arguments beginning with '?' follow the documented TEST exception (cat.h:174-178)"]
TECHNIQUE = "Hypothesis property-based testing on an ASan/UBSan build; oracle = byte-exact comparison of what handlers observe with the sent bytes / the Formatter text, capacities from the descriptor"
LEVEL_TEXT = ("Generated-input search: every handler invocation's observed (data, size, args_num, capacity, pointer) is compared byte-for-byte with what was "
              "sent or with the reference formatting; argument lengths are constructed around the capacity so truncation-by-one is exercised.")
LEVEL_NOTE = "Trusted: world harness (handler probes touch the whole claimed capacity under ASan), Formatter/ArgOracle reference pieces, Hypothesis."
DESIGN_REF = "DESIGN.md section 5 C06"


def arg_bytes(d, n):
    mode = d.weighted([(4, "text"), (3, "any"), (2, "digits")])
    out = bytearray()
    for _ in range(n):
        if mode == "text":
            out.append(d.pick(b"abcdefXYZ,\"\\ 0123?=+\r") if d.chance(7, 8) else d.rng(0, 255))
        elif mode == "digits":
            out.append(d.pick(b"0123456789,"))
        else:
            out.append(d.rng(0, 255))
    return bytes(x if x != 10 else 0x2E for x in out)


def gen(d, tier):
    # focus first: target command and its lines
    nv = d.weighted([(4, 0), (3, 1), (2, 2), (1, 3)])
    vs = [G.g_var(d, max_buf=8, fails=False) for _ in range(nv)]
    implicit = 1 if d.unlikely(1, 5) else 0
    h = "w" + ("" if implicit else "".join(k for k in "rt" if d.below(2)))
    name = d.pick([b"+W", b"+SET", b"D", b"+wr_", b"#w"])
    tgt = S.mk_cmd(name, h, vs, desc=(d.pick([b"help text", b"d", b"a longer description text"]) if d.unlikely(1, 3) else None),
                   need_all=1 if d.unlikely(1, 6) else 0, implicit=implicit)
    for k in "rt":
        if k in h and d.below(2):
            tgt["scripts"]["0" + k] = [S.mk_step(S.DATA_OK)]
            if d.below(2):
                # the handler edits the buffer / the reported length and asks for another round: the next invocation must
                # again see the freshly formatted text
                tgt["scripts"]["0" + k] = [S.mk_step(d.pick([S.NEXT, S.DATA_NEXT]), d.pick([1, 2, 3, 4]), d.pick([b"junk", b"x", b"0123456789"])) for _ in range(d.rng(1, 2))] + [S.mk_step(S.DATA_OK)]
    evs = [G.g_var(d, max_buf=8, fails=False, callbacks=False) for _ in range(d.weighted([(2, 0), (3, 1), (2, 2)]))]
    ev = S.mk_cmd(d.pick([b"#E", b"#EVT", b"%e"]), "".join(k for k in "rt" if d.chance(3, 4)), evs,
                  desc=(b"event help" if d.unlikely(1, 4) else None))
    cmds = [tgt, ev] if d.below(2) else [ev, tgt]
    ti = cmds.index(tgt)
    ei = cmds.index(ev)
    # capacity: random, or around the length of a text a handler will see
    m0 = ref.Model(S.mk_spec(cmds, bufsz=1000))
    lens = []
    for i in (ti, ei):
        r = m0.read_text([], i, 500)
        if r:
            lens.append(len(r[0]))
        tt = m0.test_text(i, 500, b"\n")
        if tt:
            lens.append(len(tt))
    if lens and d.chance(1, 2):
        cc = max(6, d.pick(lens) + 1 + d.pick([0, -1, 1, -2, 2]))
    else:
        cc = d.pick([6, 7, 8, 10, 12, 16, 24, 32, 48, 64, 64, 128, 255, 256, 257, 300, 520])
    shared = d.below(2) == 0
    if shared:
        bufsz, ubufsz = 2 * cc + d.below(2), 0
    else:
        if lens and d.chance(1, 2):
            ubufsz = max(0, d.pick(lens) + 1 + d.pick([0, -1, 1, -2, 2]))
        else:
            ubufsz = d.pick([0, 1, 6, 12, 24, 48])
        bufsz = cc
    inp = bytearray()
    for _ in range(d.rng(1, 4)):
        form = d.weighted([(6, "w"), (2, "r"), (2, "t")])
        at = d.pick([b"AT", b"at", b"aT"])
        nm = G.up_or_low(d, name) if d.below(3) == 0 else name
        if form == "r":
            ln = at + nm + b"?"
        elif form == "t":
            ln = at + nm + b"=?"
        else:
            if d.chance(1, 3) and vs:
                a = G.g_args(d, tgt, True)
                if d.below(3) == 0:
                    a += arg_bytes(d, d.pick([1, 2, cc]))
            else:
                n = d.pick([0, 1, cc - 3, cc - 2, cc - 1, cc, cc + 1, cc + 2, 2 * cc, 3 * cc, 254, 255, 256, 257, 511, 512]) if d.chance(2, 3) else d.below(cc + 4)
                n = min(n, 3 * cc + 8)
                a = arg_bytes(d, max(0, n))
            ln = at + nm + (b"" if implicit and d.chance(2, 3) else b"=") + a
        inp += ln + (b"\r\n" if d.below(3) == 0 else b"\n")
    actions = []
    step = 0
    for _ in range(d.below(4)):
        step += d.pick([0, 1, 3, 10, 30, 80, 200])
        actions.append([S.AT_STEP, step, S.WA_TRIG, ei, d.below(2), None])
    s = S.mk_spec(cmds, input=bytes(inp), shared=shared, bufsz=bufsz, ubufsz=ubufsz, rs=G.g_sched(d, 6), ws=G.g_sched(d, 6),
                  actions=actions, flags=S.WF_MONVARS)
    return dict(spec=s, meta=dict(ti=ti, ei=ei))


def run(case, W):
    s = case["spec"]
    ti, ei = case["meta"]["ti"], case["meta"]["ei"]
    t = W.run(s, "san")
    if not t.ok:
        return Result(violation=("crash", str(t.crash)))
    xv = [x for x in t.xviol if x[1] in ('variable-guard-damaged', 'handler-capacity-or-pointer-wrong')]
    if xv:
        return Result(violation=("world-invariant", str(xv[:2])))
    if t.reason != "quiescent":
        return Result(violation=("no-quiescence", t.reason))
    cc, uc = S.ccap(s), S.ucap(s)
    m = ref.Model(s)
    lines, tail = ref.split_lines(s["input"])
    nseg = len(lines) + 2
    hs = [[] for _ in range(nseg)]
    vs = [[] for _ in range(nseg)]
    ms = [[] for _ in range(nseg)]
    uh = []
    for h in t.handlers:
        if h.fsm == "c":
            hs[min(h.lf, nseg - 1)].append(h)
        else:
            uh.append(h)
    for v in t.varcbs:
        if v.ci == ti:
            vs[min(v.lf, nseg - 1)].append(v)
    for x in t.mem:
        if x.region == "v" and x.ci == ti:
            ms[min(x.lf, nseg - 1)].append(x)
    labels = set()
    nt = False
    for i, raw in enumerate(lines):
        try:
            p = m.line(raw)
        except ref.Unknown:
            return Result(skipped=True)
        got = hs[i + 1]
        exp = [c for c in p.cbs if c[0] == "H"]
        if p.args is not None and p.form == "w":
            a = p.args
            if len(a) >= cc - 2:
                nt = True
                labels.add("args-near-capacity")
            if any(x in (0, 13) or x >= 128 for x in raw):
                nt = True
                labels.add("args-cr-nul-high")
        if p.args_overlong:
            labels.add("overlong")
            if got or vs[i + 1] or ms[i + 1]:
                return Result(violation=("overlong-processed", "line %r has %d argument bytes for capacity %d but handlers %r / variable callbacks %r / variable changes %r happened" % (raw, len(p.args), cc, got, vs[i + 1], ms[i + 1])))
            seg = t.out_by_line(len(lines))[i + 1]
            if b"ERROR" not in seg or b"OK" in seg:
                return Result(violation=("overlong-not-error", "line %r over capacity %d answered %r" % (raw, cc, seg)))
            continue
        if len(got) != len(exp):
            return Result(violation=("handler-count", "line %r: expected handler invocations %r, observed %r" % (raw, exp, got)))
        for e, g in zip(exp, got):
            if (e[2], e[3]) != (g.ci, g.kind):
                return Result(violation=("handler-identity", "line %r: expected %r observed %r" % (raw, e, g)))
            if g.kind == "w":
                labels.add("write-handler")
                if g.seen != e[4] or g.size != len(e[4]):
                    return Result(violation=("write-data", "line %r: write handler must see %r (len %d), saw %r (len %d)" % (raw, e[4], len(e[4]), g.seen, g.size)))
                if not (g.flags & 2):
                    return Result(violation=("write-not-terminated", "line %r: data[data_size] is not NUL" % raw))
                if not (g.flags & 1):
                    return Result(violation=("write-pointer", "line %r: data does not point to the working buffer" % raw))
                if g.args != e[5]:
                    return Result(violation=("write-args-num", "line %r: args_num %d, parsed variables %d" % (raw, g.args, e[5])))
            elif g.kind in "rt":
                labels.add("text-handler-cmd")
                if g.seen != e[4] or g.size != len(e[4]):
                    return Result(violation=("text-data", "line %r: %s handler must see %r (len %d), saw %r (size %d)" % (raw, g.kind, e[4], len(e[4]), g.seen, g.size)))
                if g.max != cc or not (g.flags & 1):
                    return Result(violation=("text-capacity", "line %r: handler told capacity %d (real %d), inside=%d" % (raw, g.max, cc, g.flags & 1)))
                if len(e[4]) >= cc - 3:
                    nt = True
                    labels.add("text-near-capacity")
    # handlers run by the unsolicited state machine
    for g in uh:
        if g.ci != ei:
            return Result(violation=("event-identity", "unsolicited handler for command %d, only %d was triggered" % (g.ci, ei)))
        labels.add("text-handler-event")
        ok = False
        for nl in (b"\n", b"\r\n"):
            mm = ref.Model(s)
            try:
                p = mm.event(ei, 0 if g.kind == "r" else 1, nl)
            except ref.Unknown:
                return Result(skipped=True)
            e = [c for c in p.cbs if c[0] == "H"]
            if e and e[0][4] == g.seen and g.size == len(g.seen):
                ok = True
                break
        if not ok:
            return Result(violation=("event-text", "unsolicited %s handler saw %r (size %d), expected %r" % (g.kind, g.seen, g.size, e[0][4] if e else None)))
        if g.max != uc or not (g.flags & 1):
            return Result(violation=("event-capacity", "unsolicited handler told capacity %d (real %d), inside=%d" % (g.max, uc, g.flags & 1)))
        if len(g.seen) >= uc - 3:
            nt = True
            labels.add("text-near-capacity")
    # events whose text does not fit must not reach the handler: covered by C10/C19; here only what handlers see
    labels.add("shared" if s["shared"] else "separate")
    return Result(labels=sorted(labels), nontrivial=nt)


def minimise(case, W, sig):
    return case
