"""C05 - hex-buffer and string arguments decode exactly and never exceed data_size (DESIGN 5, C05).

Oracle: own decoders (ArgOracle) say accept/reject and the decoded bytes; the `san` world (exact-size heap blocks under
ASan) makes any store at or beyond data_size a crash."""
from .. import spec as S, gen as G, ref
from ..spec import INT, UINT, HEX, BHEX, STR, RW, WO
from ..common import Result

ID = "C05"
LEVEL = "exploration"
WORLDS = [(1, "san")]
BUDGET = {"quick": dict(cases=3000), "thorough": dict(cases=90000)}
MIN_NONTRIVIAL = {"quick": 2000, "thorough": 30000}
BLOB = (300, 900)
RULE = ("Hypothesis byte-backed generator: one command with 1-4 variables, the BUF_HEX / BUF_STRING target (data_size 1-64, RW or WO) "
        "at a generated argument position behind valid arguments. Hex text: digit counts around 2*data_size (-2..+2), zero digits, odd "
        "counts, mixed case, one non-hex character at a generated position. String text: built from a decoded target of length "
        "data_size-2..data_size+1 over bytes 0x01-0xFF minus CR/LF with quote, backslash, LF, comma over-represented, each special "
        "character escaped, so the overflowing character is a plain character, an escape or the closing quote; plus malformed "
        "variants (missing quotes, bad escape, text after the closing quote, lone backslash). Two directed classes: an empty argument while the working buffer still holds match-state bytes that spell hex digits (table constructed for it), and argument lists longer than 255 characters. Plus an enumerated sweep data_size 1-8 x "
        "length -2..+2 x position of one escape. Non-trivial = decoded length >= data_size-1, or the text contains an escape, or it "
        "is rejected; distinct by case hash.")
ASSUMPTIONS = ["argument bytes 0x01-0xFF without LF/CR (a NUL ends the argument text, DESIGN 4.3)",
               "after a rejected argument the bytes inside [0,data_size) are unspecified (the decoder works in place); only bytes at or beyond data_size are asserted untouched",
               "the target is writable; read-only buffer variables appear only in front of it (parsed, never stored - that they keep their bytes is C08's)",
               "the command capacity is large enough for the line (C06 covers the capacity boundary)"]
TECHNIQUE = "Hypothesis property-based testing + enumerated boundary sweep on an ASan/UBSan build; oracle = independent hex / quoted-string decoders"
LEVEL_TEXT = ("Generated-input search with constructed boundary cases (decoded length data_size-1, data_size, data_size+1 reached through plain and "
              "escaped characters) against independent decoders; exact-size heap blocks under ASan turn a one-byte overrun into a crash.")
LEVEL_NOTE = "Trusted: world harness, ASan/UBSan, the Python decoders, Hypothesis."
DESIGN_REF = "DESIGN.md section 5 C05"


def str_payload(d, n):
    out = bytearray()
    for _ in range(n):
        k = d.below(12)
        if k == 0:
            out.append(0x22)
        elif k == 1:
            out.append(0x5C)
        elif k == 2:
            out.append(0x0A)
        elif k == 3:
            out.append(0x2C)
        elif k == 4:
            x = d.rng(1, 255)
            out.append(x if x not in (10, 13) else 0x41)
        else:
            out.append(d.pick(b"abcXYZ019 _n\\\"") if d.below(6) == 0 else d.pick(b"abcdefXYZ0189 _-"))
    return bytes(out)


def target_text(d, v):
    t, sz = v["type"], v["size"]
    if t == BHEX:
        cls = d.weighted([(4, "ok"), (5, "edge"), (4, "bad")])
        if cls == "ok":
            n = d.rng(1, sz)
        else:
            n = max(0, sz + d.pick([0, 1, -1, 2, -2]))
        txt = b"".join((b"%02X" if d.below(2) else b"%02x") % d.below(256) for _ in range(n))
        if cls == "bad":
            k = d.below(6)
            if k == 0 and txt:
                txt = txt[:-1]
            elif k == 1 and txt:
                p = d.below(len(txt))
                txt = txt[:p] + d.pick([b"G", b"g", b" ", b"x", b"-", b":", b"@", b"`", b"/", b"\x01", b"\xff"]) + txt[p + 1:]
            elif k == 2:
                txt = b""
            elif k == 3:
                txt = txt + d.pick([b" ", b"Z", b"0", b"\""])
            elif k == 4:
                txt = b"0x" + txt
            else:
                txt = txt + b"F" * d.pick([1, 3])
        return txt, cls
    cls = d.weighted([(3, "ok"), (6, "edge"), (4, "bad")])
    if cls == "ok":
        n = d.rng(0, max(0, sz - 1))
    else:
        n = max(0, sz + d.pick([-1, 0, 1, -2, -1]))
    payload = str_payload(d, n)
    txt = G.enc_string(payload)
    if cls == "bad":
        k = d.below(8)
        if k == 0:
            txt = txt[1:]
        elif k == 1:
            txt = txt[:-1]
        elif k == 2:
            p = d.rng(1, len(txt) - 1)
            txt = txt[:p] + b"\\" + d.pick([b"x", b"r", b"0", b"N", b"t"]) + txt[p:]
        elif k == 3:
            txt = txt + d.pick([b"x", b" ", b"\"", b"\"\""])
        elif k == 4:
            txt = txt[:-1] + b"\\"
        elif k == 5:
            txt = b""
        elif k == 6:
            txt = b" " + txt
        else:
            txt = txt[:-1] + b"\\\""          # escaped closing quote: unterminated
    return txt, cls


def valid_text(d, v):
    if v["type"] in (INT, UINT, HEX):
        rg = ref.num_range(v)
        val = d.pick([rg[1], 0, 1])
        return (b"0x%X" % val) if v["type"] == HEX else b"%d" % val
    if v["type"] == BHEX:
        return b"".join(b"%02X" % d.below(256) for _ in range(d.rng(1, v["size"])))
    return G.enc_string(bytes(d.pick(b"abcXYZ01 ,\\\"\\\\") for _ in range(d.rng(0, v["size"] - 1))))


def build_case(vs, pos, parts, h, need_all, cls, txt):
    c = S.mk_cmd(b"+B", h, vs, need_all=need_all)
    args = b",".join(parts)
    cap = max(32, len(args) + 2)
    s = S.mk_spec([c], input=b"AT+B=" + args + b"\n", shared=False, bufsz=cap, ubufsz=8)
    return dict(spec=s, meta=dict(pos=pos, cls=cls, txt=txt))


HEXLETTERS = {}
for _ch in b"ABDEFabdef":
    _pairs = [(_ch >> (2 * k)) & 3 for k in range(4)]
    if 3 not in _pairs:
        HEXLETTERS[_ch] = _pairs          # match states (0 none, 1 partial, 2 full) of 4 consecutive commands that spell this byte


def gen_stale_buffer(d):
    """Empty argument (AT<name>=) while the command working buffer still holds the 2-bit match states of the lookup: the
    table is constructed so that those bytes spell hex digits followed by NUL. An empty argument must be rejected."""
    letters = [d.pick(sorted(HEXLETTERS)) for _ in range(d.pick([2, 2, 4]))]
    if not any(2 in HEXLETTERS[c] for c in letters):
        letters[0] = d.pick([c for c in HEXLETTERS if HEXLETTERS[c][0] == 2])
    states = [x for c in letters for x in HEXLETTERS[c]] + [0, 0, 0, 0]
    if 2 not in states:
        return None
    name = d.pick([b"+B", b"+HEX", b"X"])
    sz = d.rng(1, 4)
    cmds = []
    for j, stt in enumerate(states):
        if stt == 2:
            cmds.append(S.mk_cmd(name, "w", [S.mk_var(BHEX, sz, RW, b"\x7e" * sz, wcb=1)]))
        elif stt == 1:
            cmds.append(S.mk_cmd(name + b"%d" % j, "w", []))
        else:
            cmds.append(S.mk_cmd(b"Q%d" % j, "n", []))
    cap = max(8, (len(cmds) + 3) // 4 + d.pick([0, 1, 6]))
    s = S.mk_spec(cmds, input=b"AT" + name + b"=" + (b"\r" if d.below(2) else b"") + b"\n", shared=False, bufsz=cap, ubufsz=8)
    return dict(spec=s, meta=dict(pos=0, cls="stale-buffer", txt=b"", target=states.index(2)))


def gen_long_line(d):
    """argument lists longer than 255 characters in a buffer that can hold them"""
    vs = [S.mk_var(BHEX, d.pick([62, 63, 64]), RW, d.bytes(64), wcb=1), S.mk_var(BHEX, d.pick([63, 64]), RW, d.bytes(64), wcb=1),
          S.mk_var(d.pick([BHEX, STR]), d.pick([2, 4, 40]), RW, d.bytes(40), wcb=1)]
    parts = [b"".join(b"%02X" % d.below(256) for _ in range(vs[0]["size"])), b"".join(b"%02x" % d.below(256) for _ in range(vs[1]["size"] - d.below(2)))]
    if vs[2]["type"] == BHEX:
        parts.append(b"".join(b"%02X" % d.below(256) for _ in range(d.rng(1, vs[2]["size"]))))
    else:
        parts.append(G.enc_string(bytes(d.pick(b"abcXYZ") for _ in range(d.rng(0, vs[2]["size"] - 1)))))
    c = S.mk_cmd(b"+B", "w", vs)
    args = b",".join(parts)
    s = S.mk_spec([c], input=b"AT+B=" + args + b"\n", shared=False, bufsz=len(args) + d.pick([2, 3, 40, 300]), ubufsz=8)
    return dict(spec=s, meta=dict(pos=2, cls="long-line", txt=parts[2]))


def gen(d, tier):
    r = d.below(24)
    if r == 0:
        return gen_stale_buffer(d)
    if r == 1:
        return gen_long_line(d)
    t = d.pick([BHEX, STR])
    sz = d.weighted([(6, d.rng(1, 8)), (3, d.rng(9, 24)), (2, d.rng(25, 64))])
    target = S.mk_var(t, sz, d.pick([RW, RW, WO]), d.bytes(sz), wcb=1 if d.chance(4, 5) else 0)
    pos = d.weighted([(5, 0), (3, 1), (2, 2), (1, 3)])
    vs = []
    for _ in range(pos):
        vt = d.pick([INT, UINT, HEX, BHEX, STR])
        vsz = d.pick([1, 2, 4]) if vt in (INT, UINT, HEX) else d.rng(1, 6)
        acc = d.pick([RW, WO, S.RO]) if vt in (BHEX, STR) else d.pick([RW, WO])    # read-only buffers are parsed but not stored
        vs.append(S.mk_var(vt, vsz, acc, d.bytes(vsz), wcb=d.below(2)))
    vs.append(target)
    if len(vs) < 4 and d.unlikely(1, 3):
        vs.append(S.mk_var(d.pick([INT, BHEX, STR]), d.pick([1, 2, 4]), RW, d.bytes(4), wcb=d.below(2)))
    txt, cls = target_text(d, target)
    txt = bytes(x for x in txt if x not in (0, 10, 13))
    parts = [valid_text(d, v) for v in vs[:pos]] + [txt]
    if len(vs) > pos + 1 and d.below(2):
        parts.append(valid_text(d, vs[pos + 1]))
    return build_case(vs, pos, parts, "w" if d.chance(2, 3) else "", 1 if d.unlikely(1, 6) else 0, cls, txt)


def judge(case, t):
    s = case["spec"]
    if not t.ok:
        return ("crash", str(t.crash))
    xv = [x for x in t.xviol if x[1] in ('variable-guard-damaged',)]
    if xv:
        return ("world-invariant", str(xv[:2]))
    if t.reason != "quiescent":
        return ("no-quiescence", t.reason)
    ti = case["meta"].get("target", 0)
    c = S.all_cmds(s)[ti]
    raw = bytes(x for x in ref.split_lines(s["input"])[0][0] if x != 13)
    args = raw.split(b"=", 1)[1]
    final = {(0, k): v for (ci, k), v in t.final_vars().items() if ci == ti}
    pos = 0
    k = 0
    fail_at = None
    accepted = {}
    comma = False
    while True:
        v = c["vars"][k]
        r = ref.parse_one(v, args, pos)
        if r[0] == "bad":
            fail_at = k
            break
        _, val, pos, comma = r
        if v["type"] in (INT, UINT, HEX):
            rg = ref.num_range(v)
            if rg is None or not (rg[0] <= val <= rg[1]):
                fail_at = k
                break
        else:
            lim = v["size"] if v["type"] == BHEX else v["size"] - 1
            if len(val) > lim or (v["type"] == BHEX and len(val) == 0):
                fail_at = k
                break
            if v["access"] != S.RO:
                accepted[k] = val
        k += 1
        if not (comma and k < len(c["vars"])):
            break
    wrote = [h for h in t.handlers if h.kind == "w"]
    out = t.out.replace(b"\r", b"")
    # every variable got an acceptable argument but more arguments follow: ERROR; whether the listed variables were stored before the
    # surplus was noticed is not fixed by the statement
    surplus = fail_at is None and comma and k >= len(c["vars"])
    for j, v in enumerate(c["vars"]):
        if v["type"] not in (BHEX, STR):
            continue
        got = final[(0, j)]
        init = (v["init"] + bytes(v["size"]))[:v["size"]]
        if j in accepted and surplus:
            dec = accepted[j]
            want = dec + (b"\0" if v["type"] == STR else b"")
            if got[:len(want)] != want and got != init:
                return ("wrong-bytes", "variable %d (type %d size %d): %r has more arguments than variables; the variable should hold the decoded %r or its old %r, holds %r" % (j, v["type"], v["size"], args, want, init, got))
        elif j in accepted:
            dec = accepted[j]
            want = dec + (b"\0" if v["type"] == STR else b"")
            if got[:len(want)] != want:
                return ("wrong-bytes", "variable %d (type %d size %d): text in %r decodes to %r, variable holds %r" % (j, v["type"], v["size"], args, want, got))
            cb = [x for x in t.varcbs if x.ci == ti and x.vi == j and x.kind == "w"]
            if v["wcb"] and (len(cb) != 1 or cb[0].size != len(dec)):
                return ("write-size", "variable %d: decoded length %d but write callback records %r" % (j, len(dec), cb))
        elif fail_at is None or j > fail_at:
            if got != init:
                return ("modified-unreached", "variable %d was not reached by %r but changed from %r to %r" % (j, args, init, got))
    if fail_at is not None:
        if not out.endswith(b"\nERROR\n") or out.count(b"OK"):
            return ("accepted-bad", "argument %d of %r must be rejected but the answer is %r" % (fail_at, args, out))
        if wrote:
            return ("handler-ran", "argument %d of %r must be rejected but the write handler ran" % (fail_at, args))
    else:
        too_many = comma and k >= len(c["vars"])
        missing = c["need_all"] and k != len(c["vars"])
        if not too_many and not missing:
            if not out.endswith(b"\nOK\n"):
                return ("rejected-good", "all arguments of %r are acceptable but the answer is %r" % (args, out))
            if ("w" in c["h"]) != bool(wrote):
                return ("handler-missing", "write handler presence %r but invocations %r" % (c["h"], wrote))
    return None


def classify(case):
    s = case["spec"]
    c = S.all_cmds(s)[case["meta"].get("target", 0)]
    m = case["meta"]
    v = c["vars"][m["pos"]]
    txt = m["txt"]
    r = ref.parse_one(v, txt, 0)
    labels = ["hexbuf" if v["type"] == BHEX else "string", "pos%d" % m["pos"]]
    nt = False
    if r[0] == "bad":
        labels.append("rejected-malformed")
        nt = True
    else:
        dec = r[1]
        lim = v["size"] if v["type"] == BHEX else v["size"] - 1
        if len(dec) > lim:
            labels.append("rejected-too-long")
            nt = True
        elif len(dec) >= v["size"] - 1:
            labels.append("fills-variable")
            nt = True
        else:
            labels.append("fits")
    if v["type"] == STR and b"\\" in txt:
        labels.append("has-escape")
        nt = True
    return nt, labels


def run(case, W):
    t = W.run(case["spec"], "san")
    v = judge(case, t)
    if v:
        return Result(violation=v)
    nt, labels = classify(case)
    return Result(labels=labels, nontrivial=nt)


def _sweep():
    for sz in range(1, 9):
        for dl in (-2, -1, 0, 1, 2):
            n = sz - 1 + dl          # decoded length relative to the string limit data_size-1
            if n < 0:
                continue
            for esc_pos in range(-1, n):
                for esc in (b'"', b"\\", b"\n"):
                    payload = bytearray(b"a" * n)
                    if esc_pos >= 0:
                        payload[esc_pos:esc_pos + 1] = esc
                    elif esc != b'"':
                        continue
                    txt = G.enc_string(bytes(payload))
                    v = S.mk_var(STR, sz, RW, b"\x7e" * sz, wcb=1)
                    yield build_case([v], 0, [txt], "w", 0, "sweep", txt)
            # hex buffers: n bytes relative to data_size
            nb = sz + dl
            if nb >= 0:
                for odd in (0, 1):
                    txt = b"A5" * nb + (b"F" if odd else b"")
                    v = S.mk_var(BHEX, sz, RW, b"\x7e" * sz, wcb=1)
                    yield build_case([v], 0, [txt], "w", 0, "sweep", txt)


def enumerations(tier):
    yield "size-x-length-x-escape", _sweep()


def minimise(case, W, sig):
    return case
