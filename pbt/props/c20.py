"""C20 - each line is answered on its own; the line ending mirrors the request (DESIGN 5, C20).

Metamorphic, no model: output(sequence of lines) == concatenation of output(line_i alone on a fresh parser started with
the variable values the sequence run had at that point); plus the model-free newline rule."""
from .. import spec as S, gen as G, ref
from ..spec import OK, DATA_OK, DATA_NEXT, NEXT, ERR, LIST, HEX_OK, HEX_ERR
from ..common import Result

ID = "C20"
LEVEL = "exploration"
WORLDS = [(1, "plain"), (8, "plain")]
BUDGET = {"quick": dict(cases=1000), "thorough": dict(cases=30000)}
MIN_NONTRIVIAL = {"quick": 1500, "thorough": 20000}
BLOB = (300, 1500)
RULE = ("Hypothesis byte-backed generator: tables of 1-8 commands from shared stems (all handler subsets, variables of all types, multi-step scripts incl. HOLD released on stall, command "
        "lists, descriptions, implicit-write, only_test, disabled), sequences of 2-10 lines from the C01 line grammar (valid, broken at a generated position with "
        "a valid command as tail, ambiguous abbreviations followed by '=', implicit-write, over-long, blank), each terminated by LF or CRLF with stray CRs at "
        "generated positions; handler scripts and variable-callback counters restart at every line so handlers are pure functions of (command, kind, invocation "
        "index within the line). Oracle: the sequence run's output for line i equals the output of line i fed alone to a fresh parser initialised with the variable "
        "bytes the sequence run had when line i started, and so do the handler / variable callbacks with all their arguments and the variable bytes afterwards (a quarter of the cases contain a command whose first variable is read-only with a write callback); every LF of line i's response is preceded by CR iff line i contains a CR after its first non-CR byte. "
        "Non-trivial = at least 2 non-blank lines of which some neighbouring pair differs in CR usage, or one is malformed / implicit-write / over-long; "
        "distinct by case hash.")
ASSUMPTIONS = ["names, descriptions, tags and string values contain no raw CR/LF, so every LF in the output is a library-emitted newline",
               "HOLD is released on stall with one status per case; events only when triggered by handler scripts (then compared per producer: command units byte-exact, event payloads in order; cases in which a trigger met a full ring are skipped and counted)",
               "handlers are pure functions of (command, kind, invocation index within the line): the world restarts scripts at every consumed LF"]
TECHNIQUE = "Hypothesis property-based testing; oracle = metamorphic concatenation law on the real library (sequence run vs single-line runs from the same variable state) + model-free newline rule"
LEVEL_TEXT = ("Metamorphic testing of the real code: no reference model, the sequence run is compared with single-line runs (answers, callbacks with arguments, variable bytes); state leaking from one line into "
              "the next (flags, counters, match bits, newline mode) shows up as a difference.")
LEVEL_NOTE = "Trusted: world harness (line attribution by consumed LFs, variable dumps at LFs, script restart per line), Hypothesis."
DESIGN_REF = "DESIGN.md section 5 C20"

CODES = [OK, DATA_OK, DATA_NEXT, NEXT, ERR, LIST, HEX_OK, HEX_ERR, 9, S.HOLD]
TAILS = (b"ATZ", b"AT+X=1", b"AT", b"AT+T?")


def gen(d, tier):
    cc = d.pick([8, 10, 12, 16, 24, 32, 48, 64])
    stems = [d.pick(G.STEMS) for _ in range(d.rng(1, 2))]
    cmds = [G.g_cmd(d, G.g_name(d, stems), maxvars=2, codes=CODES, var_kw=dict(max_buf=6)) for _ in range(d.rng(1, 8))]
    if d.below(2):
        cmds.append(S.mk_cmd(b"Z", "n"))
    bias = []
    if d.chance(1, 4):
        # a command whose FIRST variable is read-only (parsed, never stored) and has a write callback, followed by a writable one:
        # what the callback is told must not be left over from an earlier line
        v0 = G.g_var(d, max_buf=6, access=(S.RO,), callbacks=False)
        v0["wcb"] = 1
        v1 = G.g_var(d, max_buf=6, access=(S.RW,), callbacks=True, fails=False)
        ro = S.mk_cmd(d.pick([b"+RO", b"+TRO", b"R"]), "w" if d.below(2) else "", [v0, v1])
        cmds.insert(d.below(len(cmds) + 1), ro)
        bias = [ro] * 3      # (more lines pick it)
    G.fix_implicit_duplicates(cmds)
    inp = bytearray()
    kinds = []
    for _ in range(d.rng(2, 10)):
        r = d.below(14)
        if r == 0:
            ln = d.pick([b"", b"\r"])
            kinds.append("blank")
        else:
            ln = G.g_line(d, cmds + bias, valid_bias=True, cap=cc, tails=TAILS)
            kinds.append("line")
            if d.chance(1, 3):
                ln = G.damage_line(d, ln, cc, TAILS)
                kinds[-1] = "damaged"
        ln = ln.replace(b"\n", b".")
        inp += G.add_crs(d, ln)
    groups = G.g_groups(d, cmds)
    shared = d.below(2) == 0
    # a handler may return HOLD; every hold is released by cat_hold_exit(status) as soon as the parser stalls, with one status for
    # the whole case, so the response to a held line is still a function of that line alone
    st = d.below(2)
    actions = [[S.AT_STALL, k, S.WA_HOLDEXIT, st, 0, None] for k in range(1, 40)]
    s = S.mk_spec(groups=groups, input=bytes(inp), shared=shared, bufsz=(2 * cc + d.below(2)) if shared else cc, ubufsz=8,
                  rs=G.g_sched(d, 6), ws=G.g_sched(d, 6), actions=actions, flags=S.WF_LINERESET | S.WF_DUMPLF)
    if d.chance(1, 4):
        # handler-triggered events (at most 2 trigger steps in the table, ring capacity 8, eager io): what is triggered is a
        # function of the line; only the position of the event units among the command units depends on timing
        ev = S.mk_cmd(b"~EV", "", [S.mk_var(S.INT, 1, S.RO, b"\x05")])   # stateless: every accepted event prints #E=5
        s["groups"][-1]["cmds"].append(ev)
        ei = len(S.all_cmds(s)) - 1
        ntrig = 0
        for c in S.all_cmds(s)[:-1]:
            for st in c["scripts"].values():
                for x in st:
                    if ntrig < 2 and d.chance(1, 2):
                        x["act"], x["a1"], x["a2"] = S.WA_TRIG, ei, 0
                        ntrig += 1
        if ntrig:
            s["qcap"] = 8
            s["rs"] = []
            s["ws"] = []
        else:
            s["groups"][-1]["cmds"].pop()
    if (len(S.all_cmds(s)) + 3) // 4 > S.ccap(s):
        return None
    return dict(spec=s, meta=dict(kinds=kinds))


def producers(out):
    from ..trace import split_units
    units, rest = split_units(out)
    cmd = [u for u in units if not u[1].startswith(b"~EV")]
    ev = [u[1] for u in units if u[1].startswith(b"~EV")]
    return cmd, ev, rest


def run_with_events(case, W, t):
    """sequence run vs single-line runs when handler scripts trigger events: compared per producer"""
    s = case["spec"]
    lines, tail = ref.split_lines(s["input"])
    if any(a.name == "trig" and a.result != 0 for a in t.apis):
        return Result(skipped=True, labels=["event-queue-full"])
    cmd_seq, ev_seq, rest = producers(t.out)
    if rest:
        return Result(violation=("partial-unit", "output does not end on a unit boundary: %r" % t.out[-40:]))
    exp_cmd, exp_ev = [], []
    runs = 1
    for i, raw in enumerate(lines):
        single = S.clone(s)
        single["input"] = raw + b"\n"
        single["flags"] = 0
        dump = t.dumps.get("lf%d" % (i + 1), {})
        idx = 0
        for g in single["groups"]:
            for c in g["cmds"]:
                for k, v in enumerate(c["vars"]):
                    v["init"] = dump.get((idx, k), v["init"])
                idx += 1
        t1 = W.run(single, "plain")
        runs += 1
        if not t1.ok:
            return Result(violation=("crash", str(t1.crash)), runs=runs)
        if any(a.name == "trig" and a.result != 0 for a in t1.apis):
            return Result(skipped=True, labels=["event-queue-full"], runs=runs)
        c1, e1, r1 = producers(t1.out)
        crlf = ref.line_newline(raw) == b"\r\n"
        for kind, payload, nl in c1:
            if (nl == b"\r\n") != crlf:
                return Result(violation=("newline-style", "line %r alone answered %r" % (raw, t1.out)), runs=runs)
        exp_cmd += c1
        exp_ev += e1
    if cmd_seq != exp_cmd:
        return Result(violation=("depends-on-history", "input %r: command units of the sequence run %r differ from the concatenated single-line runs %r" % (s["input"], cmd_seq, exp_cmd)), runs=runs)
    if ev_seq != exp_ev:
        return Result(violation=("events-depend-on-history", "input %r: event units %r vs %r" % (s["input"], ev_seq, exp_ev)), runs=runs)
    nb = sum(1 for l in lines if not ref.is_blank(l))
    return Result(labels=["handler-triggered-events"], nontrivial=(nb >= 2 and bool(ev_seq)), runs=runs)


def run(case, W):
    s = case["spec"]
    t = W.run(s, "plain")
    if not t.ok:
        return Result(violation=("crash", str(t.crash)))
    if t.reason != "quiescent":
        return Result(violation=("no-quiescence", t.reason))
    if s["qcap"] == 8:
        return run_with_events(case, W, t)
    lines, tail = ref.split_lines(s["input"])
    seg = t.out_by_line(len(lines))
    if seg[0]:
        return Result(violation=("early-output", "output before the first LF: %r" % seg[0]))
    cbl = t.callbacks_by_line(len(lines))
    runs = 1
    cs = S.all_cmds(s)
    crs = []
    nonblank = 0
    special = False
    for i, raw in enumerate(lines):
        blank = ref.is_blank(raw)
        crlf = ref.line_newline(raw) == b"\r\n"
        if not blank:
            nonblank += 1
            crs.append(crlf)
        # newline rule (model-free)
        out = seg[i + 1]
        for j, b in enumerate(out):
            if b == 10:
                has_cr = j > 0 and out[j - 1] == 13
                if has_cr != crlf:
                    return Result(violation=("newline-style", "line %r (%s) answered %r" % (raw, "CRLF" if crlf else "LF", out)), runs=runs)
        # concatenation law
        single = S.clone(s)
        single["input"] = raw + b"\n"
        single["rs"] = []
        single["ws"] = []
        single["flags"] = 0
        dump = t.dumps.get("lf%d" % (i + 1), {})
        idx = 0
        for g in single["groups"]:
            for c in g["cmds"]:
                for k, v in enumerate(c["vars"]):
                    v["init"] = dump.get((idx, k), v["init"])
                idx += 1
        t1 = W.run(single, "plain")
        runs += 1
        if not t1.ok:
            return Result(violation=("crash", str(t1.crash)), runs=runs)
        if t1.out != out:
            return Result(violation=("depends-on-history", "line %d %r: alone it is answered %r, after %r it is answered %r" % (i, raw, t1.out, b"\n".join(lines[:i]), out)), runs=runs)
        # the line's effect is its own too: the same handler / variable callbacks with the same arguments, and the same variable bytes afterwards
        if t1.callbacks() != cbl[i + 1]:
            a, b = t1.callbacks(), cbl[i + 1]
            j = next((x for x in range(min(len(a), len(b))) if a[x] != b[x]), min(len(a), len(b)))
            return Result(violation=("callbacks-depend-on-history", "line %d %r: callback #%d alone %r, after %r it is %r" % (i, raw, j, a[j:j + 1], b"\n".join(lines[:i]), b[j:j + 1])), runs=runs)
        after = t.dumps.get("lf%d" % (i + 2)) if i + 1 < len(lines) else (t.final_vars() if not tail else None)
        if after is not None and t1.final_vars() != after:
            return Result(violation=("values-depend-on-history", "line %d %r: variables afterwards alone %r, in the sequence %r" % (i, raw, t1.final_vars(), after)), runs=runs)
    kinds = case.get("meta", {}).get("kinds", [])
    if any(k == "damaged" for k in kinds):
        special = True
    m = ref.Model(s)
    labels = set()
    try:
        for raw in lines:
            p = m.line(raw)
            if p.args_overlong:
                special = True
                labels.add("over-long")
            if p.target is not None and cs[p.target]["implicit"]:
                special = True
                labels.add("implicit-write")
            if p.listed:
                labels.add("cmd-list")
    except ref.Unknown:
        pass
    mixed = any(a != b for a, b in zip(crs, crs[1:]))
    if mixed:
        labels.add("mixed-newlines")
    if "damaged" in kinds:
        labels.add("damaged-line")
    return Result(labels=sorted(labels), nontrivial=(nonblank >= 2 and (mixed or special)), runs=runs)


def minimise(case, W, sig):
    from ..minimise import minimise_spec

    def still(sp):
        if (len(S.all_cmds(sp)) + 3) // 4 > S.ccap(sp):
            return False
        r = run(dict(spec=sp, meta={}), W)
        return r.violation is not None and r.violation[0] == sig
    return dict(spec=minimise_spec(case["spec"], still, max_tests=800), meta=case.get("meta", {}))
