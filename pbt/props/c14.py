"""C14 - HOLD suspends the command until released, then answers exactly once (DESIGN 5, C14)."""
from .. import spec as S, events as E, gen as G, ref
from ..spec import INT, RO, RW, OK, DATA_OK, DATA_NEXT, NEXT, ERR, HOLD, HEX_OK, HEX_ERR
from ..common import Result
from ..trace import split_units

ID = "C14"
LEVEL = "exploration"
WORLDS = [(q, "plain") for q in (1, 3)]
BUDGET = {"quick": dict(cases=1400), "thorough": dict(cases=45000)}
MIN_NONTRIVIAL = {"quick": 1500, "thorough": 20000}
BLOB = (400, 1400)
RULE = ("Hypothesis byte-backed generator: 1-5 lines of which most address a command whose handler (each of write/read/run/test) returns HOLD after 0-2 NEXT/DATA_NEXT, "
        "with the following lines already waiting in the input; release by cat_hold_exit(OK|ERROR) at a generated step, on stall, or by an event handler returning "
        "HOLD_EXIT_OK / HOLD_EXIT_ERROR (event test handlers also return PRINT_CMD_LIST_OK / DATA_OK during holds); READ/TEST events triggered before, during and after holds; spurious cat_hold_exit before, after and repeatedly during holds; "
        "two or more holds per run; a quarter of the cases with a (never failing, not recursive) mutex configured; write back-pressure; cat_is_hold sampled after every step and queried right after every release request. Oracle: from HOLD until "
        "the first accepted request no result code for that line and no input byte; events accepted during a stall-released hold are completely delivered before the "
        "release; after the request exactly one result code matching (one of) the requested status(es), then one result code per following line; cat_hold_exit "
        "returns OK during a hold and ERROR_NOT_HOLD outside; the run with the spurious calls removed is trace-identical; cat_is_hold is HOLD exactly inside the "
        "window. Non-trivial = a hold with a line queued behind it and an event delivered during it, or a run with two or more holds, or a spurious release; "
        "distinct by case hash.")
ASSUMPTIONS = ["HOLD is returned only by handlers of the command state machine (DESIGN 4.6)",
               "when several release requests reach the library before it acts, the result code must match one of them (DESIGN 4.7)",
               "every hold is eventually released (stall-triggered cat_hold_exit as a safety net)"]
TECHNIQUE = "Hypothesis model-based testing over generated hold/release/event histories; oracles = window invariants over the io/callback trace + a differential run without the spurious release calls"
LEVEL_TEXT = ("Generated histories of holds, release requests (API, event handlers, spurious), events and queued lines; every hold window is judged by invariants over the "
              "trace (reads, result codes, query results) and spurious calls by a differential run.")
LEVEL_NOTE = "Trusted: world harness, QueueModel (for 'events keep being delivered'), Hypothesis."
DESIGN_REF = "DESIGN.md section 5 C14"


def gen(d, tier):
    qcap = (1, 3)[d.below(2)]
    hc = S.mk_cmd(b"+H", "wrnt", [S.mk_var(INT, 1, RW, b"\x03", name=b"x")])
    for k in "wrnt":
        st = [S.mk_step(d.pick([NEXT, DATA_NEXT]), 0) for _ in range(d.weighted([(4, 0), (2, 1), (1, 2)]))]
        st.append(S.mk_step(HOLD if d.chance(4, 5) else d.pick([OK, ERR, DATA_OK])))
        # a second pass through the same handler (second hold in the same run)
        st += [S.mk_step(HOLD if d.chance(2, 3) else OK)]
        hc["scripts"]["0" + k] = st
    nc = S.mk_cmd(b"+N", "wrn", [], scripts={"0n": [S.mk_step(d.pick([OK, ERR]))]})
    ev = S.mk_cmd(b"#E", "", [S.mk_var(INT, 1, RO, b"\x05")])
    ex = S.mk_cmd(b"#X", "rt", [], scripts={"1r": [S.mk_step(d.pick([HEX_OK, HEX_ERR, DATA_OK])) for _ in range(4)],
                                            "1t": [S.mk_step(d.pick([HEX_OK, HEX_ERR, OK, S.LIST, S.DATA_OK])) for _ in range(4)]})
    cmds = [hc, nc, ev, ex]
    inp = b""
    for _ in range(d.rng(1, 5)):
        if d.chance(3, 4):
            ln = b"AT+H" + d.pick([b"", b"?", b"=1", b"=?"])
        else:
            ln = d.pick([b"AT+N", b"AT+N=1", b"AT", b"ATX", b""])
        inp += ln + (b"\r\n" if d.below(3) == 0 else b"\n")
    actions = []
    step = 0
    for _ in range(d.rng(0, 10)):
        step += d.pick([0, 1, 2, 5, 12, 30, 60, 150, 400])
        k = d.weighted([(4, "exit"), (4, "trig"), (2, "trigx")])
        if k == "exit":
            actions.append([S.AT_STEP, step, S.WA_HOLDEXIT, d.below(2), 0, None])
            actions.append([S.AT_STEP, step, S.WA_ISHOLD, 0, 0, None])
            if d.unlikely(1, 4):
                actions.append([S.AT_STEP, step, S.WA_HOLDEXIT, d.below(2), 0, None])
        elif k == "trig":
            actions.append([S.AT_STEP, step, S.WA_TRIG, 2, d.below(2), None])
        else:
            actions.append([S.AT_STEP, step, S.WA_TRIG, 3, d.below(2), None])
    for k in range(1, 12):
        actions.append([S.AT_STALL, k, S.WA_HOLDEXIT, d.below(2), 0, None])
        actions.append([S.AT_STALL, k, S.WA_ISHOLD, 0, 0, None])
    s = S.mk_spec(cmds, input=inp, qcap=qcap, bufsz=64, rs=G.g_sched(d, 4), ws=G.g_sched(d, 8), actions=actions, flags=S.WF_SAMPLE)
    if d.unlikely(1, 4):
        # the same history with a (never failing, not recursive) mutex configured: a release requested by an event handler from inside
        # cat_service must work there too
        s["mutex"] = dict(lockfail=[], unlockfail=[])
        s["flags"] |= S.WF_SAMPLE_LOCKED
    return dict(spec=s)


def core(t):
    return (t.out, t.callbacks(), [(r.step, r.off) for r in t.reads], t.status, t.samples)


def run(case, W):
    s = case["spec"]
    t = W.run(s, "plain")
    if not t.ok:
        return Result(violation=("crash", str(t.crash)))
    if t.reason != "quiescent":
        return Result(violation=("no-quiescence", "%s after %d steps" % (t.reason, t.q["steps"])))
    n = t.q["steps"]
    pu, busy, hold = E.expand_samples(t)
    exp_hold, windows = E.hold_timeline(t)
    units, rest = split_units(t.out)
    if rest:
        return Result(violation=("partial-unit", "output does not end on a unit boundary"))
    out = t.out
    # result-code units with the step of their first and last byte
    pos = 0
    res = []
    ev_units_done = []
    step_of = [w.step for w in t.writes]
    for kind, payload, nl in units:
        start = pos
        pos += (1 if out[pos:pos + 1] == b"\n" else 2) if kind == "unit" else 0
        pos += len(payload) + len(nl)
        if kind == "unit" and payload in (b"OK", b"ERROR"):
            res.append((payload, step_of[start], step_of[pos - 1]))
        if payload.startswith(b"#"):
            ev_units_done.append(step_of[pos - 1])      # step in which an event unit was completed
    lines, tail = ref.split_lines(s["input"])
    nonblank = [i for i, l in enumerate(lines) if not ref.is_blank(l)]
    if len(res) != len(nonblank):
        return Result(violation=("count", "%d non-blank lines, %d result codes: %r" % (len(nonblank), len(res), out)))
    # which line is held in which window: the line whose LF was the last one consumed before the HOLD
    lf_before = {}
    for h in t.handlers:
        if h.fsm == "c" and h.code == HOLD:
            lf_before.setdefault(h.step, h.lf)
    qv = E.judge_queue(s, t, check_outputs=False)
    if qv.violation:
        return Result(violation=("events-during-hold", "%s: %s" % qv.violation))
    delivered_during = False
    queued_behind = False
    held_results = []
    for (start, rel, statuses) in windows:
        if rel is None:
            return Result(violation=("never-released", "hold entered at step %d was not released although release requests were scheduled" % start))
        lfc = lf_before.get(start)
        j = sum(1 for i in nonblank if i < lfc) - 1          # index of the held line among the non-blank ones
        if j < 0 or j >= len(res):
            return Result(violation=("harness-attribution", "cannot attribute hold at step %d" % start))
        payload, first_step, last_step = res[j]
        held_results.append(res[j])
        if first_step < rel:
            return Result(violation=("result-during-hold", "hold entered at step %d, first release request at step %d, but the result code %r started at step %d" % (start, rel, payload, first_step)))
        want = set(b"OK" if x == 0 else b"ERROR" for x in statuses)
        # requests that reach the library while it still reports the suspension (the free window after the first request) may be
        # accepted as well, and which of several accepted requests decides the status is not fixed
        for a in t.apis:
            if a.name == "holdexit" and a.result == S.S_OK and rel < a.step < n and hold[a.step - 1] == S.S_HOLD and all(hold[x] == S.S_HOLD for x in range(rel, a.step)):
                want.add(b"OK" if a.args[0] == 0 else b"ERROR")
        for h in t.handlers:
            if h.fsm == "u" and h.code in (HEX_OK, HEX_ERR) and rel < h.step < n and all(hold[x] == S.S_HOLD for x in range(rel, h.step)):
                want.add(b"OK" if h.code == HEX_OK else b"ERROR")
        if payload not in want:
            return Result(violation=("wrong-status", "hold released with status(es) %r but the result code is %r" % (statuses, payload)))
        for r in t.reads:
            if start < r.step < last_step:
                return Result(violation=("read-during-hold", "input offset %d handed out at step %d inside the hold/answer window [%d, %d]" % (r.off, r.step, start, last_step)))
        if any(r.step > last_step and r.lf >= lfc for r in t.reads) or len(lines) > lfc:
            queued_behind = queued_behind or len(s["input"]) > sum(len(l) + 1 for l in lines[:lfc])
        # events accepted during a stall-released hold are completely delivered before the release
        stall_released = any(a.name == "holdexit" and a.step == rel and not a.insvc for a in t.apis) and all(
            not (x[0] == S.AT_STEP and x[2] == S.WA_HOLDEXIT and x[1] == rel) for x in s["actions"])
        trig_in = [a for a in t.apis if a.name == "trig" and a.result == 0 and start <= a.step < rel]
        if trig_in:
            if stall_released and rel - 1 < len(qv.pending_by_step) and qv.pending_by_step[rel - 1] != 0:
                return Result(violation=("event-not-delivered-during-hold", "hold [%d,%d] was released on stall but %d events were still undelivered" % (start, rel, qv.pending_by_step[rel - 1])))
            if stall_released:
                # positive evidence (the queue model above tolerates events that are processed without a trace): every event
                # accepted during this hold shows up before the release - #E by its unit, #X by its handler invocation
                seen = sum(1 for x in ev_units_done if start <= x <= rel) + sum(1 for h in t.handlers if h.fsm == "u" and h.ci == 3 and start <= h.step <= rel)
                if seen < len(trig_in):
                    return Result(violation=("event-not-delivered-during-hold", "hold [%d,%d] was released on stall after %d events had been accepted during it, but only %d event units / handler invocations were seen before the release" % (start, rel, len(trig_in), seen)))
            if stall_released:
                delivered_during = True
    # cat_is_hold samples and queries; cat_hold_exit results
    z = E.hold_zones(windows, hold, n)
    for st in range(n):
        if (z[st] == "H" and hold[st] != S.S_HOLD) or (z[st] == "O" and hold[st] != S.S_OK):
            return Result(violation=("is-hold", "after step %d cat_is_hold is %d, expected %s (hold windows %r)" % (st, hold[st], "HOLD" if z[st] == "H" else "OK", windows)))
    # ... and the free window after a release request closes at the latest when the held line's result code is completely out
    for (start, rel, statuses), (payload, first_step, last_step) in zip(windows, held_results):
        for st in range(last_step + 1, n):
            if z[st] != "?":
                break
            if hold[st] == S.S_HOLD:
                return Result(violation=("is-hold", "cat_is_hold still reports HOLD after step %d although the result code of the held line was completed in step %d" % (st, last_step)))
    v, spurious = E.judge_hold_api(t, z, n)
    if v:
        return Result(violation=(v[0], v[1] + " (windows %r)" % (windows,)))
    runs = 1
    if spurious:
        # differential: the same run without the spurious calls is trace-identical
        s2 = S.clone(s)
        sp_steps = {}
        for a in spurious:
            sp_steps[a.step] = sp_steps.get(a.step, 0) + 1
        # remove step-timed cat_hold_exit actions that were spurious (all requests of such a step were outside a hold)
        keep = []
        removed = 0
        for x in s2["actions"]:
            if x[0] == S.AT_STEP and x[2] == S.WA_HOLDEXIT and sp_steps.get(x[1], 0) > 0 and not any(
                    (w[1] == x[1]) for w in windows):
                sp_steps[x[1]] -= 1
                removed += 1
                continue
            keep.append(x)
        if removed:
            s2["actions"] = keep
            t2 = W.run(s2, "plain")
            runs = 2
            if not t2.ok:
                return Result(violation=("crash", str(t2.crash)), runs=2)
            if core(t2) != core(t):
                return Result(violation=("spurious-release-has-effect", "removing %d cat_hold_exit calls made outside a hold changes the run: output %r vs %r" % (removed, t.out, t2.out)), runs=2)
    labels = []
    if windows:
        labels.append("holds-%s" % (len(windows) if len(windows) < 3 else "3+"))
    if spurious:
        labels.append("spurious-release")
    if delivered_during:
        labels.append("event-delivered-during-hold")
    if any(h.fsm == "u" and h.code in (HEX_OK, HEX_ERR) for h in t.handlers):
        labels.append("hold-exit-from-event-handler")
    if queued_behind:
        labels.append("line-queued-behind")
    if s.get("mutex") is not None:
        labels.append("mutex-configured")
    nt = len(windows) >= 2 or bool(spurious) or (delivered_during and queued_behind)
    return Result(labels=labels, nontrivial=nt, runs=runs)


def minimise(case, W, sig):
    from ..minimise import minimise_spec

    def still(sp):
        r = run(dict(spec=sp), W)
        return r.violation is not None and r.violation[0] == sig
    return dict(spec=minimise_spec(case["spec"], still, max_tests=1500))
