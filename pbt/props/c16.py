"""C16 - mutex discipline: balanced, non-nested, nothing touched without the lock (DESIGN 5, C16).

Fault enumeration: along a generated call history the stub mutex fails lock #k / unlock #k, for every k."""
from .. import spec as S, gen as G, ref
from ..spec import INT, RO, RW, OK, DATA_OK, DATA_NEXT, NEXT, ERR, HOLD
from ..common import Result

ID = "C16"
LEVEL = "fault_enumeration"
WORLDS = [(1, "plain"), (2, "plain")]
BUDGET = {"quick": dict(cases=14, maxk=70), "thorough": dict(cases=400, maxk=400)}
MIN_NONTRIVIAL = {"quick": 100, "thorough": 3000}
BLOB = (300, 900)
NO_SHRINK = True   # one generated history expands into hundreds of (history, fault) runs; the failing pair is reported as is
API = ("service", "is_busy", "is_hold", "is_full", "trig_event", "trig_read", "trig_test", "hold_exit")
RULE = ("Hypothesis generates call histories: 1-3 command lines (multi-step handlers, variables with callbacks, HOLD, HOLD_EXIT_* from read/test handlers of both state machines) and events on a small table (event command sometimes only_test or disabled; repeated release requests while held), interleaved with "
        "all seven other locking API functions (cat_is_busy, cat_is_hold, cat_is_unsolicited_buffer_full, cat_trigger_unsolicited_event/_read/_test, cat_hold_exit) "
        "at generated service steps, with a stub mutex. For each history the fault-free run is checked against the lock grammar, then lock #k and (separately) "
        "unlock #k are made to fail for EVERY k up to a bound (70 quick / 400 thorough) - one re-run per k - plus one generated multi-fault plan. Grammar: exactly one "
        "lock per API call, never while locked; on lock failure no callback, no memory change (object, buffers, variables byte-compared), ERROR_MUTEX_LOCK; otherwise all "
        "io/handler/variable callbacks between the lock and exactly one unlock, nothing changes before the lock or after the unlock, a failed unlock returns "
        "ERROR_MUTEX_UNLOCK. Differential: the faulty run equals the fault-free run with the failed-lock call deleted (output, callbacks, other API results, "
        "variables). One evaluated case = one (history, fault) pair; non-trivial = the fault hits a call made while the parser was non-idle; distinct by (history, fault).")
ASSUMPTIONS = ["handlers never call the locking API when a mutex is configured (a user-made nested lock is not the library's)",
               "a failed-lock cat_service call is not counted as a step by the harness, so step-timed actions keep their alignment",
               "struct cat_object is compared as opaque bytes"]
TECHNIQUE = "fault injection enumerated exhaustively over every lock/unlock invocation of Hypothesis-generated call histories; oracle = trace grammar + memory snapshots + differential against the fault-free run"
LEVEL_TEXT = ("Fault enumeration: for every generated history each single lock failure and each single unlock failure (every k up to the bound) is injected and judged by a trace "
              "grammar, by byte-wise memory snapshots around the call and by a differential against the fault-free run; histories themselves are sampled.")
LEVEL_NOTE = "Trusted: world harness (bracket snapshots taken inside the lock/unlock callbacks), Hypothesis. Single-threaded: no real contention (that is C17)."
DESIGN_REF = "DESIGN.md section 5 C16"


def gen(d, tier):
    qcap = (1, 2)[d.below(2)]
    v = S.mk_var(INT, 1, RW, b"\x05", name=b"x", rcb=1, wcb=1)
    c0 = S.mk_cmd(b"+A", "wrnt", [v])
    for k in "wrnt":
        codes = [OK, DATA_OK, DATA_NEXT, NEXT, ERR] + ([HOLD] if d.below(3) == 0 else []) + ([S.HEX_OK, S.HEX_ERR] if k in "rt" else [])
        c0["scripts"]["0" + k] = [S.mk_step(d.pick(codes), d.below(3) if k in "rt" else 0, d.pick([b"tag", b"x"])) for _ in range(d.below(3))]
    c1 = S.mk_cmd(b"#E", "r" if d.below(2) else "", [S.mk_var(INT, 1, RO, b"\x07")], scripts={"1r": [S.mk_step(d.pick([DATA_OK, DATA_NEXT, OK, S.HEX_OK, S.HEX_ERR])) for _ in range(d.below(4))]})
    if d.unlikely(1, 4):
        c1["only_test"] = 1
    if d.unlikely(1, 6):
        c1["disable"] = 1
    inp = b""
    for _ in range(d.rng(0, 3)):
        inp += d.pick([b"AT+A?", b"AT+A=3", b"AT+A", b"AT+A=?", b"AT", b"ATX", b"AT+A=300"]) + (b"\r\n" if d.below(3) == 0 else b"\n")
    if d.chance(1, 2):
        # make sure a hold happens in this history (release requests, possibly repeated, reach it while held)
        kind = d.pick("nrwt")
        c0["scripts"]["0" + kind] = [S.mk_step(HOLD)] + c0["scripts"]["0" + kind]
        inp = {"n": b"AT+A", "r": b"AT+A?", "w": b"AT+A=1", "t": b"AT+A=?"}[kind] + b"\n" + inp
    actions = []
    step = 0
    for _ in range(d.rng(3, 14)):
        step += d.pick([0, 1, 2, 4, 8, 15, 30])
        k = d.pick([S.WA_TRIG, S.WA_TRIG, S.WA_HOLDEXIT, S.WA_ISFULL, S.WA_ISBUSY, S.WA_ISHOLD])
        if k == S.WA_TRIG:
            actions.append([S.AT_STEP, step, k, 1, d.below(4), None])
        else:
            actions.append([S.AT_STEP, step, k, d.below(2), 0, None])
            if k == S.WA_HOLDEXIT and d.below(2):
                actions.append([S.AT_STEP, step, k, d.below(2), 0, None])     # a second request before the library acts
    for k in range(1, 4):
        actions.append([S.AT_STALL, k, S.WA_HOLDEXIT, d.below(2), 0, None])
        if d.below(2):
            actions.append([S.AT_STALL, k, S.WA_HOLDEXIT, d.below(2), 0, None])
    s = S.mk_spec([c0, c1], input=inp, qcap=qcap, bufsz=64, rs=G.g_sched(d, 3, 3), ws=G.g_sched(d, 4, 3), actions=actions,
                  mutex=dict(lockfail=[], unlockfail=[]), flags=S.WF_BRACKET)
    multi = dict(lockfail=sorted(set(d.rng(1, 120) for _ in range(d.rng(1, 4)))), unlockfail=sorted(set(d.rng(1, 120) for _ in range(d.below(3)))))
    return dict(spec=s, multi=multi)


def brackets(t):
    """list of API calls: dict(api, step, result, changed, before_lock, after_unlock, inner=[records])"""
    calls = []
    cur = None
    for k, e in t.events:
        if k == "B":
            cur = dict(api=e[2], step=e[1], inner=[])
        elif k == "E":
            if cur is None:
                return None
            cur.update(result=e.result, changed=e.changed, before_lock=e.before_lock, after_unlock=e.after_unlock)
            calls.append(cur)
            cur = None
        elif cur is not None and k in ("L", "U", "R", "W", "w", "H", "V"):
            cur["inner"].append((k, e))
    return calls


def grammar(t):
    xv = [x for x in t.xviol if "outside-lock" in x[1]]
    if xv:
        return ("callback-outside-lock", str(xv[:2]))
    calls = brackets(t)
    if calls is None:
        return ("harness-brackets", "unbalanced bracket records")
    for c in calls:
        inner = c["inner"]
        locks = [e for k, e in inner if k == "L"]
        unlocks = [e for k, e in inner if k == "U"]
        if len(locks) != 1:
            return ("lock-count", "%s at step %d performed %d lock calls" % (c["api"], c["step"], len(locks)))
        if inner[0][0] != "L":
            return ("callback-before-lock", "%s at step %d: %r happened before the lock" % (c["api"], c["step"], inner[0]))
        L = locks[0]
        if L[4] != 0:
            return ("nested-lock", "%s at step %d locked while already locked" % (c["api"], c["step"]))
        if L[3]:  # lock failed
            if len(inner) != 1:
                return ("activity-after-failed-lock", "%s at step %d: lock failed but %r followed" % (c["api"], c["step"], inner[1:3]))
            if c["result"] != S.S_MUTEX_LOCK:
                return ("failed-lock-result", "%s at step %d: lock failed but the call returned %d" % (c["api"], c["step"], c["result"]))
            if c["changed"]:
                return ("failed-lock-changed-state", "%s at step %d: lock failed but parser object / buffers / variables changed" % (c["api"], c["step"]))
            continue
        if len(unlocks) != 1:
            return ("unlock-count", "%s at step %d performed %d unlock calls" % (c["api"], c["step"], len(unlocks)))
        if inner[-1][0] != "U":
            return ("callback-after-unlock", "%s at step %d: %r happened after the unlock" % (c["api"], c["step"], inner[-1]))
        if c["before_lock"]:
            return ("changed-before-lock", "%s at step %d changed state before taking the lock" % (c["api"], c["step"]))
        if c["after_unlock"]:
            return ("changed-after-unlock", "%s at step %d changed state after releasing the lock" % (c["api"], c["step"]))
        if unlocks[0][3] and c["result"] != S.S_MUTEX_UNLOCK:
            return ("failed-unlock-result", "%s at step %d: unlock failed but the call returned %d" % (c["api"], c["step"], c["result"]))
    return None


def projection(t, skip_calls=()):
    """what must be equal between a faulty run and its fault-free counterpart"""
    apis = []
    n = {}
    for a in t.apis:
        if a.insvc:
            continue
        key = (a.step, a.name, a.args)
        n[key] = n.get(key, 0) + 1
        if (key, n[key]) in skip_calls:
            continue
        apis.append((a.name, a.args, a.result))
    return (t.out, t.callbacks(), apis, t.final_vars())


def locate(t0, k):
    """the API call that performs lock #k in the fault-free run"""
    for c in brackets(t0):
        for kind, e in c["inner"]:
            if kind == "L" and e[2] == k:
                return c
    return None


def run_fault(s, W, t0, p0, kind, k):
    """inject one fault; returns (violation or None, nontrivial, api)"""
    c = locate(t0, k)
    if c is None:
        return None, False, None
    s1 = S.clone(s)
    s1["mutex"] = dict(lockfail=[k] if kind == "lock" else [], unlockfail=[k] if kind == "unlock" else [])
    t1 = W.run(s1, "plain")
    if not t1.ok:
        return ("crash", str(t1.crash)), False, c["api"]
    if t1.reason != "quiescent":
        return ("no-quiescence-after-fault", "%s #%d failed in %s at step %d: run ended with %s" % (kind, k, c["api"], c["step"], t1.reason)), False, c["api"]
    g = grammar(t1)
    if g:
        return (g[0], "%s #%d failed in %s at step %d: %s" % (kind, k, c["api"], c["step"], g[1])), False, c["api"]
    busy_ctx = c["step"] > 0 and not (c["api"] == "service" and not c["inner"][1:-1])
    # differential
    if c["api"] == "service":
        # a failed lock makes the call a no-op (retried by the harness); a failed unlock only changes its return value
        p1 = projection(t1)
        if p1 != p0:
            return ("not-normal-afterwards", "%s #%d failed in cat_service at step %d: the rest of the run differs from the fault-free run: %r vs %r" % (kind, k, c["step"], p1[0][-80:], p0[0][-80:])), busy_ctx, c["api"]
        return None, busy_ctx, c["api"]
    # another API function: find the corresponding action record
    name = {"trig_event": "trig", "trig_read": "trig", "trig_test": "trig", "hold_exit": "holdexit", "is_full": "isfull", "is_busy": "isbusy", "is_hold": "ishold"}[c["api"]]
    # identify which A record (step, name, occurrence) belongs to this bracket: the first A record after the bracket's E in event order
    target = None
    seen = False
    occ = {}
    for kk, e in t0.events:
        if kk == "A" and not e.insvc:
            key = (e.step, e.name, e.args)
            occ[key] = occ.get(key, 0) + 1
            if seen and target is None and e.name == name and e.step == c["step"]:
                target = (key, occ[key])
        if kk == "E" and e.step == c["step"] and e.api == c["api"] and not seen:
            # the bracket of interest is the one containing lock k
            pass
        if kk == "L" and e[2] == k:
            seen = True
    if target is None:
        return None, False, c["api"]
    if kind == "unlock":
        if projection(t1, {target}) != projection(t0, {target}):
            return ("not-normal-afterwards", "unlock #%d failed in %s at step %d: the rest of the run differs from the fault-free run" % (k, c["api"], c["step"])), busy_ctx, c["api"]
        return None, busy_ctx, c["api"]
    # failed lock: the call must have had no effect: compare with the fault-free run of the history without that action
    s2 = S.clone(s)
    occ2 = {}
    acts = []
    removed = False
    for a in s2["actions"]:
        if not removed and a[0] == S.AT_STEP and a[1] == c["step"]:
            nm = {S.WA_TRIG: "trig", S.WA_HOLDEXIT: "holdexit", S.WA_ISFULL: "isfull", S.WA_ISBUSY: "isbusy", S.WA_ISHOLD: "ishold"}.get(a[2])
            if nm == "trig":
                args = (a[3], {0: 0, 1: 1, 2: 0, 3: 1}[a[4]])
            elif nm == "holdexit":
                args = (1 if a[3] else 0,)
            else:
                args = ()
            key2 = (a[1], nm, args)
            occ2[key2] = occ2.get(key2, 0) + 1
            if key2 == target[0] and occ2[key2] == target[1]:
                removed = True
                continue
        acts.append(a)
    if not removed:
        return None, busy_ctx, c["api"]       # stall-timed action: no step-exact counterpart
    s2["actions"] = acts
    t2 = W.run(s2, "plain")
    if not t2.ok:
        return ("crash", str(t2.crash)), busy_ctx, c["api"]
    if projection(t1, {target}) != projection(t2):
        return ("not-normal-afterwards", "lock #%d failed in %s at step %d: the run differs from the fault-free run without that call: %r vs %r" % (k, c["api"], c["step"], projection(t1, {target})[0][-80:], projection(t2)[0][-80:])), busy_ctx, c["api"]
    return None, busy_ctx, c["api"]


def run(case, W):
    """a 'case' here is a (history, fault) pair; kind None = the fault-free run only"""
    s = case["spec"]
    f = case.get("fault")
    t0 = W.run(s, "plain")
    if not t0.ok:
        return Result(violation=("crash", str(t0.crash)))
    if t0.reason != "quiescent":
        return Result(violation=("no-quiescence", t0.reason))
    g = grammar(t0)
    if g:
        return Result(violation=g)
    if f is None:
        return Result(labels=["fault-free"], nontrivial=False)
    p0 = projection(t0)
    if f["kind"] == "multi":
        s1 = S.clone(s)
        s1["mutex"] = dict(lockfail=f["lockfail"], unlockfail=f["unlockfail"])
        t1 = W.run(s1, "plain")
        if not t1.ok:
            return Result(violation=("crash", str(t1.crash)), runs=2)
        g = grammar(t1)
        if g:
            return Result(violation=(g[0], "multi-fault plan %r: %s" % (f, g[1])), runs=2)
        if t1.reason != "quiescent":
            return Result(violation=("no-quiescence-after-fault", "multi-fault plan %r: %s" % (f, t1.reason)), runs=2)
        return Result(labels=["multi-fault"], nontrivial=True, runs=2)
    v, nt, api = run_fault(s, W, t0, p0, f["kind"], f["k"])
    if v:
        return Result(violation=v, runs=3)
    labels = ["%s-fail" % f["kind"]]
    if api:
        labels.append("in-" + api)
    return Result(labels=labels, nontrivial=nt, runs=3)


def expand(case, W, tier):
    """all (history, fault) pairs of one generated history"""
    s = case["spec"]
    t0 = W.run(s, "plain")
    if not t0.ok or t0.q is None:
        yield dict(spec=s, fault=None)
        return
    nl = sum(1 for r in t0.locks if r[0] == "L")
    yield dict(spec=s, fault=None)
    for k in range(1, min(nl, BUDGET[tier]["maxk"]) + 1):
        yield dict(spec=s, fault=dict(kind="lock", k=k))
        yield dict(spec=s, fault=dict(kind="unlock", k=k))
    m = case["multi"]
    yield dict(spec=s, fault=dict(kind="multi", lockfail=[x for x in m["lockfail"] if x <= nl], unlockfail=[x for x in m["unlockfail"] if x <= nl]))


def minimise(case, W, sig):
    return case
