"""C09 - disabled, test-only or handler-less commands are never executed (DESIGN 5, C09)."""
from .. import spec as S, gen as G, ref
from ..spec import INT, UINT, HEX, BHEX, STR, RW, RO, WO
from ..common import Result
from ..trace import split_units

ID = "C09"
LEVEL = "exploration"
WORLDS = [(1, "plain")]
BUDGET = {"quick": dict(cases=2000), "thorough": dict(cases=60000)}
MIN_NONTRIVIAL = {"quick": 2000, "thorough": 30000}
BLOB = (400, 1500)
RULE = ("Hypothesis byte-backed generator: tables of 2-9 commands from shared stems in 1-3 groups (handler subsets, 0-2 variables with callbacks, only_test, "
        "implicit-write, need_all_vars, initially disabled commands/groups) and a history of 3-10 lines; between lines - while the parser is quiescent - any subset of command "
        "and group disable flags is flipped (disabled, re-enabled later). A quarter of the commands carry a description; one case in ten registers a disabled command with an EMPTY name and a run handler and sends bare AT lines. One case in eight registers one command array through two groups of which exactly one is enabled (their two group flags are not flipped). One case in eight runs in a fresh world process after another parser instance with a different table has been used (hidden state across cat_init calls). Lines address commands by exact name, other case, abbreviation, implicit write and "
        "all four request forms with valid arguments. Oracle per line, with the flag state at that time: the callbacks fired (command identity and kind) equal "
        "what the Resolver over enabled commands plus Availability allow; a gated request is ERROR with no callback; variable storage changes only for the "
        "resolved command. Non-trivial = some line's typed name matches (exactly or as a prefix) a currently disabled command, or requests a form of an "
        "only_test / handler-less command; distinct by case hash.")
ASSUMPTIONS = ["flags are flipped only while the parser is quiescent between lines (the statement's quantifier)",
               "handlers return OK at once and do not fail",
               "an implicit-write command has no case-insensitively equal non-implicit duplicate (DESIGN 4.5)"]
TECHNIQUE = "Hypothesis stateful-style history generation (flag flips between lines) judged post hoc against a gating reference (Resolver over enabled commands + Availability) and a memory monitor"
LEVEL_TEXT = ("Generated histories of enable/disable changes interleaved with command lines; every line is judged with the flag state of its time against an "
              "independent gating reference and a memory monitor on all variables.")
LEVEL_NOTE = "Trusted: world harness (line barriers, memory monitor), Resolver/Availability reference pieces, Hypothesis."
DESIGN_REF = "DESIGN.md section 5 C09"


def gen(d, tier):
    stems = [d.pick(G.STEMS) for _ in range(d.rng(1, 2))]
    n = d.rng(2, 9)
    cmds = []
    for _ in range(n):
        nm = G.g_name(d, stems)
        h = "".join(k for k in "wrnt" if d.chance(2, 3))
        vs = []
        for _ in range(d.weighted([(4, 0), (4, 1), (2, 2)])):
            v = G.g_var(d, max_buf=5, fails=False)
            v["rcb"] = v["wcb"] = 1
            vs.append(v)
        c = S.mk_cmd(nm, h, vs, desc=(d.pick([b"help", b"a longer description text"]) if d.unlikely(1, 4) else None))
        if d.unlikely(1, 5):
            c["need_all"] = 1
        if d.unlikely(1, 5):
            c["only_test"] = 1
        if d.unlikely(1, 5):
            c["disable"] = 1
        if d.unlikely(1, 8):
            c["implicit"] = 1
            c["h"] = "w" if "w" in c["h"] else ""
        cmds.append(c)
    G.fix_implicit_duplicates(cmds)
    bare = 0
    if d.unlikely(1, 10):
        # a disabled command with an EMPTY name and a run handler: a bare "AT" line names nothing and must not reach it
        e = S.mk_cmd(b"", "n" + ("r" if d.below(2) else ""), [])
        e["disable"] = 1
        cmds.insert(d.below(len(cmds) + 1), e)
        n += 1
        bare = 1
    groups = G.g_groups(d, cmds, maxgroups=3, disable=True)
    aliased = d.unlikely(1, 8) and G.add_alias(d, groups)   # one command array registered through two groups, one of them disabled
    # the two registrations of an aliased array keep their group flags (both enabled = every abbreviation of them ambiguous by construction)
    flippable = [gi for gi, g in enumerate(groups) if g.get("alias") is None and not any(x.get("alias") == gi for x in groups)]
    flip_cmds = [i for i, c in enumerate(cmds) if c["name"] != b""]     # (the empty-name command stays disabled)
    inp = bytearray()
    actions = []
    nlines = d.rng(3, 10)
    for li in range(nlines):
        # flag flips before this line (barrier li = li LFs consumed and quiescent)
        for _ in range(d.weighted([(3, 0), (4, 1), (2, 2), (1, 4)])):
            if d.chance(3, 4) or not flippable:
                actions.append([S.AT_LINE, li, S.WA_SETDIS, d.pick(flip_cmds), d.below(2), None])
            else:
                actions.append([S.AT_LINE, li, S.WA_SETGDIS, d.pick(flippable), d.below(2), None])
        c = d.pick(cmds)
        if c["name"] == b"":
            inp += d.pick([b"AT", b"at", b"AT?", b"AT="]) + (b"\r\n" if d.below(4) == 0 else b"\n")
            continue
        nm = G.typed_name_for(d, c["name"], exact_bias=d.chance(2, 3))
        form = d.pick("nrwt")
        if form == "n":
            ln = b"AT" + nm
        elif form == "r":
            ln = b"AT" + nm + b"?"
        elif form == "t":
            ln = b"AT" + nm + b"=?"
        else:
            ln = b"AT" + nm + (b"" if c["implicit"] and d.below(2) else b"=") + G.g_args(d, c, True)
        inp += ln.replace(b"\n", b".").replace(b"\r", b".") + (b"\r\n" if d.below(4) == 0 else b"\n")
    s = S.mk_spec(groups=groups, input=bytes(inp), bufsz=128, rs=G.g_sched(d, 4), ws=G.g_sched(d, 4), actions=actions, flags=S.WF_MONVARS)
    pre = None
    if d.unlikely(1, 8):
        # another parser instance with another table (other group sizes, other flags) used before this one in the same process:
        # gating must be a function of this descriptor only
        pc = [S.mk_cmd(G.g_name(d, stems), "wrnt", []) for _ in range(d.rng(2, 9))]
        pg = G.g_groups(d, pc, maxgroups=3, disable=False)
        pin = b"".join(b"AT" + c["name"] + b"\n" for c in pc[:4])
        pre = S.mk_spec(groups=pg, input=pin, bufsz=128)
    return dict(spec=s, pre=pre)


def run(case, W):
    s = case["spec"]
    if case.get("pre"):
        ts = W.run_fresh([case["pre"], s], "plain")
        t = ts[-1]
        if len(ts) < 2:
            return Result(violation=("crash", str(t.crash)))
    else:
        t = W.run(s, "plain")
    if not t.ok:
        return Result(violation=("crash", str(t.crash)))
    if t.reason != "quiescent":
        return Result(violation=("no-quiescence", t.reason))
    m = ref.Model(s)
    cs = m.cs
    lines, tail = ref.split_lines(s["input"])
    nseg = len(lines) + 2
    obs = [[] for _ in range(nseg)]
    mem = [[] for _ in range(nseg)]
    for k, e in t.events:
        if k == "H":
            obs[min(e.lf, nseg - 1)].append(("H", e.ci, e.kind))
        elif k == "V":
            obs[min(e.lf, nseg - 1)].append(("V", e.ci, e.kind))
        elif k == "M" and e.region == "v":
            mem[min(e.lf, nseg - 1)].append(e.ci)
    # every flag flip must have been applied by the world (otherwise the history was not what we think)
    applied = [(a.lf, a.name, a.args) for a in t.apis if a.name in ("setdis", "setgdis")]
    units_all, rest = split_units(t.out)
    results = [u[1] for u in units_all if u[0] == "unit" and u[1] in (b"OK", b"ERROR")]
    nt = False
    labels = set()
    nb = -1
    flips = 0
    for i, raw in enumerate(lines):
        for a in s["actions"]:
            if a[0] == S.AT_LINE and a[1] == i:
                flips += 1
                if a[2] == S.WA_SETDIS:
                    m.cdis[a[3]] = bool(a[4])
                else:
                    m.gdis[a[3]] = bool(a[4])
        dis = m.dis()
        try:
            p = m.line(raw)
        except ref.Unknown:
            return Result(skipped=True)
        if p.blank:
            continue
        nb += 1
        exp = [(c[0], c[2], c[3]) if c[0] == "H" else ("V", c[1], c[3]) for c in p.cbs]
        got = obs[i + 1]
        if got != exp:
            dn = [cs[j]["name"] for j in range(len(cs)) if dis[j]]
            return Result(violation=("gating", "line %r with disabled %r: expected callbacks %r, observed %r" % (raw, dn, exp, got)))
        ans = results[nb] if nb < len(results) else None
        if ans != p.result:
            return Result(violation=("answer", "line %r: expected %r, answered %r" % (raw, p.result, ans)))
        gated = p.target is None or p.form not in ref.forms_available(cs[p.target]) or p.args_overlong
        bad = [ci for ci in mem[i + 1] if gated or ci != p.target]
        if bad:
            return Result(violation=("side-effect", "line %r resolved to %r but variables of commands %r changed" % (raw, p.target, sorted(set(mem[i + 1])))))
        if p.typed:
            t_up = ref.upname(p.typed)
            for j, c in enumerate(cs):
                if dis[j] and ref.upname(c["name"])[:len(t_up)] == t_up:
                    nt = True
                    labels.add("addresses-disabled")
            if p.target is not None:
                c = cs[p.target]
                if p.form and p.form not in ref.forms_available(c):
                    nt = True
                    labels.add("form-unavailable")
                if c["only_test"]:
                    labels.add("only-test-target")
                if p.cbs:
                    labels.add("executed")
    if len(applied) != flips:
        return Result(violation=("harness-history", "%d flag flips planned, %d applied" % (flips, len(applied))))
    if flips:
        labels.add("flag-flips")
    if case.get("pre"):
        labels.add("after-another-parser-instance")
    if any(g.get("alias") is not None for g in s["groups"]):
        labels.add("aliased-group")
    if mem[0]:
        return Result(violation=("side-effect", "variables changed before any line"))
    return Result(labels=sorted(labels), nontrivial=nt)


def minimise(case, W, sig):
    return case
