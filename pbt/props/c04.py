"""C04 - numeric arguments: stored iff well-formed and in range, exact value (DESIGN 5, C04).

Oracle: ArgOracle (Python big integers) decides well-formed / in range for every argument in sequence; compared are
only the numeric variables' bytes, the result code, the write_size told to the variable callback and whether the
command's write handler ran."""
from .. import spec as S, gen as G, ref
from ..spec import INT, UINT, HEX, BHEX, STR, RW, WO
from ..common import Result

ID = "C04"
LEVEL = "exploration"
WORLDS = [(1, "plain")]
BUDGET = {"quick": dict(cases=3000), "thorough": dict(cases=90000)}
MIN_NONTRIVIAL = {"quick": 2000, "thorough": 30000}
BLOB = (200, 700)
RULE = ("Enumerated sub-sweep 'beyond-64KiB': 280 cases with argument texts of 65 534 - 131 073 characters in working buffers larger than 64 KiB (zero-padded in-range values, long digit strings, all numeric types, both positions, shared and separate buffers). Hypothesis byte-backed generator: one command with 1-4 variables, the numeric target (INT/UINT/HEX x size 1,2,4 and the "
        "unsupported sizes 3,8; RW or WO) at a generated position behind valid arguments of random types, with/without write "
        "handler, need_all on/off, random previous value; target text from weighted classes: boundary values min-1,min,max,max+1, "
        "2^31, 2^32, 2^63, 2^64 +-{0,1,5}, 2^64*k+small, width boundaries followed by 1-12 further digits, 1-40 leading zeros, digit counts up to the capacity, sign variants "
        "(+,-,--,+-,sign only, sign on unsigned), hex with 0x/0X, mixed case, missing prefix, empty digits, >16 digits, embedded "
        "garbage, empty field, spaces, random digit strings. Plus an enumerated sweep of every type x width x boundary neighbourhood. "
        "Non-trivial = the target text is malformed, or its value lies within 1 of a width boundary, or exceeds 2^32, or has >=18 "
        "digits; distinct by case hash.")
ASSUMPTIONS = ["argument bytes 0x01-0xFF without LF/CR (a NUL ends the argument text, DESIGN 4.3)",
               "numeric variables naturally aligned (own malloc block)",
               "read-only variables are not generated here (C08; DESIGN 4.11)",
               "the command capacity is large enough for the line (the capacity boundary is C06's)"]
TECHNIQUE = "Hypothesis property-based testing + enumerated boundary sweep; oracle = arbitrary-precision decimal/hex evaluation of the argument text"
LEVEL_TEXT = ("Generated-input search against an arbitrary-precision reference: every generated argument text is evaluated with Python integers "
              "and the stored bytes / result code / callbacks must agree. Boundary and overflow classes are constructed, not hoped for.")
LEVEL_NOTE = "Trusted: world harness, ArgOracle (pure Python int()), Hypothesis. No claim for texts containing NUL or for read-only variables."
DESIGN_REF = "DESIGN.md section 5 C04"

NUM = (INT, UINT, HEX)


def fmt_val(d, t, val):
    """one of several spellings of an integer for type t"""
    if t == HEX:
        body = (b"%X" if d.chance(2, 3) else b"%x") % abs(val)
        if d.unlikely(1, 6):
            body = b"".join(bytes([c ^ 0x20]) if (65 <= c <= 70 or 97 <= c <= 102) and d.below(2) else bytes([c]) for c in body)
        pre = b"0x" if d.chance(3, 4) else b"0X"
        z = b"0" * d.rng(1, 40) if d.unlikely(1, 5) else b""
        return (b"-" if val < 0 else b"") + pre + z + body
    z = b"0" * d.rng(1, 40) if d.unlikely(1, 5) else b""
    sgn = b"-" if val < 0 else (b"+" if (t == INT and d.unlikely(1, 6)) else b"")
    return sgn + z + b"%d" % abs(val)


def target_text(d, v, cap):
    t, sz = v["type"], v["size"]
    rg = ref.num_range(v) or ((-(1 << 23), (1 << 23) - 1) if t == INT else (0, (1 << 24) - 1))
    cls = d.weighted([(4, "in"), (5, "edge"), (3, "big"), (3, "malformed"), (1, "long"), (1, "random"), (3, "edge-extended")])
    if cls == "edge-extended":
        # a width boundary (or a value next to it) followed by further digits: out of range by orders of magnitude, but a
        # parser that stops accumulating early sees the boundary value
        base = d.pick([rg[0], rg[1], rg[0] - 1, rg[1] + 1, -(rg[1] + 1), 1 << 31, -(1 << 31), 1 << 32, (1 << 31) - 1, 1 << 63, -(1 << 63), (1 << 64) - 1])
        if t == HEX:
            val = abs(base) * (16 ** d.rng(1, 12)) + d.below(16)
        else:
            val = abs(base) * (10 ** d.rng(1, 12)) + d.below(10)
        if base < 0:
            val = -val
        return fmt_val(d, t, val), cls
    if cls == "in":
        span = rg[1] - rg[0]
        val = rg[0] + (d.below(span + 1) if span < (1 << 24) else d.below(1 << 32) % (span + 1))
        return fmt_val(d, t, val), cls
    if cls == "edge":
        val = d.pick([rg[0] - 1, rg[0], rg[1], rg[1] + 1, rg[0] + 1, rg[1] - 1, 0, -1, 1, -rg[1], -(rg[1] + 1), -(rg[1] + 2)])
        return fmt_val(d, t, val), cls
    if cls == "big":
        base = d.pick([1 << 31, 1 << 32, 1 << 63, 1 << 64, (1 << 64) * d.rng(1, 12), 10 ** d.rng(18, 30), (1 << 64) + (1 << 32), (1 << 128)])
        val = base + d.pick([0, 1, 5, -1, -5, d.below(256), d.below(70000)])
        if t == INT and d.below(2):
            val = -val
        return fmt_val(d, t, val), cls
    if cls == "long":
        n = d.pick([17, 18, 19, 20, 21, 39, cap - 2, cap - 12])
        n = max(1, min(n, cap - 12))
        digs = bytes(d.pick(b"0123456789") for _ in range(n))
        return ((b"0x" + digs) if t == HEX else digs), cls
    if cls == "random":
        n = d.rng(1, 12)
        return bytes(d.pick(b"0123456789abcdefxX+-, ") for _ in range(n)), cls
    good = fmt_val(d, t, d.pick([0, 1, 7, rg[1]]))
    k = d.below(12)
    if k == 0:
        return b"", cls
    if k == 1:
        return d.pick([b"-", b"+", b"0x", b"0X", b"x", b"X"]), cls
    if k == 2:
        return d.pick([b"--", b"+-", b"-+", b"++"]) + good.lstrip(b"+-"), cls
    if k == 3:
        p = d.below(len(good) + 1)
        return good[:p] + d.pick([b" ", b"a", b"G", b".", b"-", b"+", b"x", b"\x01", b"\xff", b"\"", b"/", b":"]) + good[p:], cls
    if k == 4:
        return good + d.pick([b" ", b"-", b"+"]), cls
    if k == 5:
        return b" " + good, cls
    if k == 6 and t == HEX:
        return good[2:] if good[:1] != b"-" else good, cls       # missing prefix
    if k == 7 and t != HEX:
        return b"0x" + good.lstrip(b"+-"), cls
    if k == 8:
        return (b"-" if t != INT else b"+-") + good.lstrip(b"+-"), cls
    if k == 9:
        return good.lstrip(b"+-") + b"-", cls
    if k == 10 and t == HEX:
        return b"0" + good[2:], cls
    return good + b"h", cls


def valid_text(d, v):
    if v["type"] in NUM:
        rg = ref.num_range(v)
        val = d.pick([rg[0], rg[1], 0, 1, rg[1] // 2, rg[0] // 2 if rg[0] else 3])
        return fmt_val(d, v["type"], val)
    if v["type"] == BHEX:
        return b"".join(b"%02X" % d.below(256) for _ in range(d.rng(1, v["size"])))
    return G.enc_string(bytes(d.pick(b"abcXYZ01 ,") for _ in range(d.rng(0, v["size"] - 1))))


def gen(d, tier):
    cap = d.pick([48, 64, 96, 128])
    t = d.pick(NUM)
    sz = d.weighted([(4, 1), (4, 2), (4, 4), (1, 3), (1, 8)])
    target = S.mk_var(t, sz, d.pick([RW, RW, WO]), d.bytes(sz), wcb=1 if d.chance(3, 4) else 0, name=b"t" if d.below(2) else None)
    pos = d.weighted([(5, 0), (3, 1), (2, 2), (1, 3)])
    vs = []
    for _ in range(pos):
        vt = d.pick([INT, UINT, HEX, BHEX, STR])
        vsz = d.pick([1, 2, 4]) if vt in NUM else d.rng(1, 6)
        vs.append(S.mk_var(vt, vsz, d.pick([RW, WO]), d.bytes(vsz), wcb=d.below(2)))
    vs.append(target)
    for _ in range(d.weighted([(5, 0), (2, 1)]) if len(vs) < 4 else 0):
        vs.append(S.mk_var(d.pick(NUM), d.pick([1, 2, 4]), RW, d.bytes(4), wcb=d.below(2)))
    c = S.mk_cmd(b"+N", "w" if d.chance(2, 3) else "", vs, need_all=1 if d.unlikely(1, 5) else 0)
    txt, cls = target_text(d, target, cap)
    txt = bytes(x for x in txt if x not in (0, 10, 13))
    parts = [valid_text(d, v) for v in vs[:pos]] + [txt]
    if len(vs) > pos + 1 and d.below(2):
        parts.append(valid_text(d, vs[pos + 1]))
    if d.unlikely(1, 12):
        parts.append(b"1")      # possibly one argument too many
    line = b"AT+N=" + b",".join(parts)
    if len(line) - 5 >= cap - 1:
        cap = len(line)          # the capacity boundary is C06's: make the line fit
    s = S.mk_spec([c], input=line + b"\n", shared=False, bufsz=cap, ubufsz=8)
    return dict(spec=s, meta=dict(pos=pos, cls=cls, txt=txt))


def judge(case, t):
    s = case["spec"]
    if not t.ok:
        return ("crash", str(t.crash))
    xv = [x for x in t.xviol if x[1] in ('variable-guard-damaged',)]
    if xv:
        return ("world-invariant", str(xv[:2]))
    if t.reason != "quiescent":
        return ("no-quiescence", t.reason)
    c = S.all_cmds(s)[0]
    raw = ref.split_lines(s["input"])[0][0]
    args = raw.split(b"=", 1)[1]
    final = t.final_vars()
    # sequential evaluation with the ArgOracle
    pos = 0
    k = 0
    expect_fail_at = None
    stored = {}
    comma = False
    while True:
        v = c["vars"][k]
        r = ref.parse_one(v, args, pos)
        if r[0] == "bad":
            expect_fail_at = k
            break
        _, val, pos, comma = r
        if v["type"] in NUM:
            rg = ref.num_range(v)
            if rg is None or not (rg[0] <= val <= rg[1]):
                expect_fail_at = k
                break
            stored[k] = val.to_bytes(v["size"], "little", signed=(v["type"] == INT))
        else:
            lim = v["size"] if v["type"] == BHEX else v["size"] - 1
            if len(val) > lim:
                expect_fail_at = k
                break
        k += 1
        if not (comma and k < len(c["vars"])):
            break
    wrote = [h for h in t.handlers if h.kind == "w"]
    out = t.out
    # every variable got an acceptable argument but more arguments follow: the line is an ERROR, and whether the listed variables were
    # stored before the surplus was noticed is not fixed by the statement (it speaks of the variable whose own text is bad)
    surplus = expect_fail_at is None and comma and k >= len(c["vars"])
    for j, v in enumerate(c["vars"]):
        if v["type"] not in NUM:
            continue
        init = (v["init"] + bytes(v["size"]))[:v["size"]]
        got = final[(0, j)]
        if j in stored and surplus:
            if got not in (stored[j], init):
                return ("wrong-value", "variable %d (type %d size %d): argument list %r (more arguments than variables) should leave %r or %r, holds %r" % (j, v["type"], v["size"], args, init, stored[j], got))
        elif j in stored:
            if got != stored[j]:
                return ("wrong-value", "variable %d (type %d size %d): argument list %r should store %r, holds %r" % (j, v["type"], v["size"], args, stored[j], got))
            cb = [x for x in t.varcbs if x.vi == j and x.kind == "w"]
            if v["wcb"] and (len(cb) != 1 or cb[0].size != v["size"]):
                return ("write-size", "variable %d: write callback records %r, expected one call with write_size %d" % (j, cb, v["size"]))
        else:
            if got != init:
                return ("modified", "variable %d must keep %r (argument list %r fails at/before it), holds %r" % (j, init, args, got))
    if expect_fail_at is not None:
        if not out.endswith(b"\nERROR\n") or out.count(b"OK"):
            return ("accepted-bad", "argument %d of %r is malformed or out of range but the answer is %r" % (expect_fail_at, args, out))
        if wrote:
            return ("handler-ran", "argument %d of %r is malformed or out of range but the write handler ran" % (expect_fail_at, args))
    else:
        too_many = comma and k >= len(c["vars"])
        missing = c["need_all"] and k != len(c["vars"])
        if not too_many and not missing:
            if not out.endswith(b"\nOK\n"):
                return ("rejected-good", "all arguments of %r are well-formed and in range but the answer is %r" % (args, out))
            if ("w" in c["h"]) != bool(wrote):
                return ("handler-missing", "write handler presence %r but invocations %r" % (c["h"], wrote))
            if wrote and wrote[0].args != k:
                return ("args-num", "write handler got args_num %d, %d variables were parsed" % (wrote[0].args, k))
    return None


def is_nontrivial(case):
    s = case["spec"]
    c = S.all_cmds(s)[0]
    m = case["meta"]
    v = c["vars"][m["pos"]]
    txt = m["txt"]
    r = ref.parse_one(v, txt, 0)
    if r[0] == "bad":
        return True, "malformed"
    val = r[1]
    digits = len(txt.lstrip(b"+-").lstrip(b"0xX"))
    if digits >= 18 or abs(val) > (1 << 32):
        return True, "huge"
    rg = ref.num_range(v)
    if rg is None:
        return True, "unsupported-size"
    if min(abs(val - rg[0]), abs(val - rg[1])) <= 1:
        return True, "boundary"
    return False, "plain"


def run(case, W):
    t = W.run(case["spec"], "plain")
    v = judge(case, t)
    if v:
        return Result(violation=v)
    nt, lab = is_nontrivial(case)
    labels = [lab, "pos%d" % case["meta"]["pos"], "class-" + case["meta"]["cls"]]
    labels.append("answer-OK" if t.out.endswith(b"\nOK\n") else "answer-ERROR")
    return Result(labels=labels, nontrivial=nt)


def _sweep():
    for t in NUM:
        for sz in (1, 2, 4, 3, 8):
            v0 = S.mk_var(t, sz, RW, b"\x5a" * sz, wcb=1)
            rg = ref.num_range(v0) or (0, 255)
            pts = set()
            for b in (rg[0], rg[1], 0, 1 << 31, 1 << 32, 1 << 63, 1 << 64, 3 << 64, 10 ** 19, 10 ** 20):
                for dlt in (-2, -1, 0, 1, 2, 5):
                    pts.add(b + dlt)
                    pts.add(-(b + dlt))
                for dig in (0, 5, 9):
                    for k in (1, 2, 9):
                        pts.add(b * 10 ** k + dig)
                        pts.add(-(b * 10 ** k + dig))
            for val in sorted(pts):
                if t == HEX:
                    texts = [(b"-" if val < 0 else b"") + b"0x%X" % abs(val), (b"-" if val < 0 else b"") + b"0X%x" % abs(val), b"0x000%X" % abs(val)]
                else:
                    texts = [b"%d" % val, b"+%d" % val if val >= 0 else b"-0%d" % -val, b"000%d" % val if val >= 0 else b"-000%d" % -val]
                for txt in texts:
                    c = S.mk_cmd(b"+N", "w", [S.mk_var(t, sz, RW, b"\x5a" * sz, wcb=1)])
                    yield dict(spec=S.mk_spec([c], input=b"AT+N=" + txt + b"\n", shared=False, bufsz=96, ubufsz=8), meta=dict(pos=0, cls="sweep", txt=txt))


def _huge():
    """argument texts of 65 535 - 65 540 and 131 073 characters in working buffers beyond 64 KiB ('however many digits it has'):
    zero-padded in-range values must be stored, long digit strings refused, whatever width an internal length counter has"""
    for t in (INT, UINT, HEX):
        for n in (65533, 65534, 65535, 65536, 131072):
            pre = b"0x" if t == HEX else b""
            texts = [pre + b"0" * n + b"5", pre + b"0" * n + b"7F" if t == HEX else pre + b"0" * n + b"127", pre + b"9" * (n + 1), pre + b"1" + b"0" * n]
            if t == INT:
                texts += [b"-" + b"0" * n + b"123", b"-" + b"9" * n]
            for txt in texts:
                for shared in (False, True):
                    cc = len(txt) + 7 + 64
                    c = S.mk_cmd(b"+N", "w", [S.mk_var(t, 1, RW, b"\x5a", wcb=1), S.mk_var(t, 2, RW, b"\x5a\x5a", wcb=1)])
                    for pos in (0, 1):
                        args = txt + b",1" if pos == 0 else b"1," + txt
                        yield dict(spec=S.mk_spec([c], input=b"AT+N=" + args + b"\n", shared=shared, bufsz=2 * cc if shared else cc, ubufsz=8),
                                   meta=dict(pos=pos, cls="huge", txt=txt))


def enumerations(tier):
    yield "boundary-neighbourhoods", _sweep()
    yield "beyond-64KiB", _huge()


def minimise(case, W, sig):
    return case
