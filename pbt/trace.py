"""Trace: typed view of what the world printed for one case."""
from collections import namedtuple

Read = namedtuple("Read", "step off byte lf")            # lf = number of LFs consumed BEFORE this byte
Write = namedtuple("Write", "step byte lf idx")          # accepted output byte; idx = position in output
Refused = namedtuple("Refused", "step byte rv")
Handler = namedtuple("Handler", "step fsm ci kind seen size args max flags after code lf")
VarCb = namedtuple("VarCb", "step ci vi kind size ret lf")
Api = namedtuple("Api", "step name args result lf insvc")
Mem = namedtuple("Mem", "step region ci vi data lf")
Bracket = namedtuple("Bracket", "step api result changed before_lock after_unlock")


def _unhex(t):
    return b"" if t == "-" or t == "~" else bytes.fromhex(t)


class Trace:
    def __init__(self, recs, crash=None):
        self.crash = crash
        self.reads = []
        self.writes = []
        self.refused = []
        self.handlers = []
        self.varcbs = []
        self.apis = []
        self.status = []      # (step, status) on change
        self.samples = []     # (step, processed_u, busy, hold) on change
        self.mem = []
        self.dumps = {}       # tag -> {(ci,vi): bytes}
        self.probes = []      # (step, status, activity) for probe calls that were NOT quiet
        self.xviol = []       # (step, text) world-level invariant violations
        self.locks = []       # ('L'|'U', step, n, failed, depth)
        self.brackets = []    # sequence of ('B', step, api) / Bracket
        self.events = []      # everything in order, as (letter, record)
        self.q = None
        lf = 0
        out = bytearray()
        ev = self.events
        for raw in recs:
            t = raw.decode("ascii").split()
            k = t[0]
            if k == "W":
                r = Write(int(t[1]), int(t[2], 16), lf, len(out))
                out.append(r.byte)
                self.writes.append(r)
                ev.append(("W", r))
            elif k == "R":
                b = int(t[3], 16)
                r = Read(int(t[1]), int(t[2]), b, lf)
                self.reads.append(r)
                ev.append(("R", r))
                if b == 10:
                    lf += 1
            elif k == "H":
                r = Handler(int(t[1]), t[2], int(t[3]), t[4], _unhex(t[5]), int(t[6]), int(t[7]), int(t[8]), int(t[9]), _unhex(t[10]), int(t[11]), lf)
                self.handlers.append(r)
                ev.append(("H", r))
            elif k == "V":
                r = VarCb(int(t[1]), int(t[2]), int(t[3]), t[4], int(t[5]), int(t[6]), lf)
                self.varcbs.append(r)
                ev.append(("V", r))
            elif k == "w":
                r = Refused(int(t[1]), int(t[2], 16), int(t[3]))
                self.refused.append(r)
                ev.append(("w", r))
            elif k == "A" or k == "a":
                name = t[2]
                if name == "poke":
                    r = Api(int(t[1]), name, (int(t[3]), int(t[4]), _unhex(t[5])), 0, lf, k == "a")
                else:
                    vals = [int(x) for x in t[3:]]
                    r = Api(int(t[1]), name, tuple(vals[:-1]), vals[-1], lf, k == "a")
                self.apis.append(r)
                ev.append(("A", r))
            elif k == "S":
                self.status.append((int(t[1]), int(t[2])))
                ev.append(("S", (int(t[1]), int(t[2]))))
            elif k == "P":
                r = (int(t[1]), int(t[2]), int(t[3]), int(t[4]))
                self.samples.append(r)
                ev.append(("P", r))
            elif k == "M":
                if t[2] == "v":
                    r = Mem(int(t[1]), "v", int(t[3]), int(t[4]), _unhex(t[5]), lf)
                else:
                    r = Mem(int(t[1]), t[2], -1, -1, b"", lf)
                self.mem.append(r)
                ev.append(("M", r))
            elif k == "F":
                self.dumps.setdefault(t[1], {})[(int(t[2]), int(t[3]))] = _unhex(t[4])
            elif k == "K":
                r = (int(t[1]), int(t[2]), int(t[3]))
                self.probes.append(r)
                ev.append(("K", r))
            elif k == "X":
                self.xviol.append((int(t[1]), " ".join(t[2:])))
            elif k == "L" or k == "U":
                r = (k, int(t[1]), int(t[2]), int(t[3]), int(t[4]))
                self.locks.append(r)
                ev.append((k, r))
            elif k == "B":
                r = ("B", int(t[1]), t[2])
                self.brackets.append(r)
                ev.append(("B", r))
            elif k == "E":
                r = Bracket(int(t[1]), t[2], int(t[3]), int(t[4]), int(t[5]), int(t[6]))
                self.brackets.append(r)
                ev.append(("E", r))
            elif k == "Q":
                self.q = dict(steps=int(t[1]), reason=t[2], refused_r=int(t[3]), refused_w=int(t[4]), busy=int(t[5]),
                              hold=int(t[6]), inpos=int(t[7]), refused_r_midline=int(t[8]))
        self.out = bytes(out)
        self.lf_total = lf

    @property
    def ok(self):
        return self.crash is None and self.q is not None

    @property
    def reason(self):
        return self.q["reason"] if self.q else "crash"

    def final_vars(self):
        return self.dumps.get("end0", {})

    def out_by_line(self, nlines=None):
        """output bytes attributed to each LF count (0 = before any LF was consumed)"""
        n = (self.lf_total if nlines is None else nlines) + 1
        r = [bytearray() for _ in range(n)]
        for w in self.writes:
            r[min(w.lf, n - 1)].append(w.byte)
        return [bytes(x) for x in r]

    def callbacks_by_line(self, nlines):
        """callbacks() split by the number of LFs consumed when the callback ran (index 0 = before any LF)"""
        r = [[] for _ in range(nlines + 1)]
        for k, e in self.events:
            if k == "H":
                r[min(e.lf, nlines)].append(("H", e.fsm, e.ci, e.kind, e.seen, e.size, e.args, e.max, e.flags, e.after, e.code))
            elif k == "V":
                r[min(e.lf, nlines)].append(("V", e.ci, e.vi, e.kind, e.size, e.ret))
        return r

    def callbacks(self, strip_step=True):
        """handler and variable callbacks in order, without step numbers (for differentials)"""
        r = []
        for k, e in self.events:
            if k == "H":
                r.append(("H", e.fsm, e.ci, e.kind, e.seen, e.size, e.args, e.max, e.flags, e.after, e.code))
            elif k == "V":
                r.append(("V", e.ci, e.vi, e.kind, e.size, e.ret))
        return r


def split_units(out):
    """Split an output stream into units.

    Returns (units, rest): units is a list of (kind, payload, nl) with kind 'unit' for
    NL payload NL and 'line' for payload NL (command-list continuation lines); nl is b'\\n' or b'\\r\\n'
    of the terminating newline.  Payloads must not contain LF (harness-controlled alphabets).
    rest is the unparsed tail (b'' when the stream ends on a unit boundary)."""
    units = []
    i = 0
    n = len(out)
    while i < n:
        # leading newline?
        j = i
        lead = None
        if out[j:j + 1] == b"\n":
            lead = b"\n"
            j += 1
        elif out[j:j + 2] == b"\r\n":
            lead = b"\r\n"
            j += 2
        e = out.find(b"\n", j)
        if e < 0:
            return units, out[i:]
        if e > j and out[e - 1:e] == b"\r":
            payload, nl = out[j:e - 1], b"\r\n"
        else:
            payload, nl = out[j:e], b"\n"
        if lead is None:
            units.append(("line", payload, nl))
        else:
            units.append(("unit", payload, nl))
        i = e + 1
    return units, b""
