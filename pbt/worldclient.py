"""Client side of the world process: send a Spec, get a Trace."""
import os
import subprocess
from . import spec as S
from . import build
from .trace import Trace


class WorldCrash(Exception):
    pass


class World:
    def __init__(self, exe, prelude=None):
        self.exe = exe
        self.p = None
        self.runs = 0
        self.last_text = None       # protocol text of the previous case run in this process (None right after a start)
        self.prelude = prelude      # protocol text to run once after every (re)start, before anything else

    def start(self):
        env = dict(os.environ, ASAN_OPTIONS="detect_leaks=0:abort_on_error=0:allocator_may_return_null=1",
                   UBSAN_OPTIONS="print_stacktrace=1:halt_on_error=1")
        self.p = subprocess.Popen([self.exe], stdin=subprocess.PIPE, stdout=subprocess.PIPE, stderr=subprocess.PIPE, env=env)

    def stop(self):
        if self.p is not None:
            try:
                self.p.stdin.close()
                self.p.wait(timeout=5)
            except Exception:
                self.p.kill()
            for f in (self.p.stdout, self.p.stderr):
                try:
                    f.close()
                except Exception:
                    pass
            self.p = None

    def run_text(self, text):
        """returns (list of raw record lines, crash_text or None)"""
        if self.p is None or self.p.poll() is not None:
            self.start()
            self.last_text = None
            if self.prelude:
                pre = self.prelude
                self.prelude = None          # (no recursion)
                self.run_text(pre)
                self.prelude = pre
                if self.p is None:
                    self.start()
        self.runs += 1
        self.last_text = text
        try:
            self.p.stdin.write(text.encode("ascii"))
            self.p.stdin.flush()
        except BrokenPipeError:
            pass
        recs = []
        rd = self.p.stdout.readline
        while True:
            line = rd()
            if not line:
                err = self.p.stderr.read().decode(errors="replace")
                self.p.wait()
                rc = self.p.returncode
                for f in (self.p.stdout, self.p.stderr, self.p.stdin):
                    try:
                        f.close()
                    except Exception:
                        pass
                self.p = None
                self.last_text = None
                return recs, "world died (rc=%s): %s" % (rc, err[-3000:])
            if line == b"END\n":
                return recs, None
            recs.append(line)


class Worlds:
    """lazily started world processes, one per (ring capacity, flavour)"""

    def __init__(self, prelude=None):
        self.w = {}
        self.prelude = prelude or {}     # "qcap,flavour" -> protocol text run first in a fresh process (replay of hidden-state failures)

    def get(self, qcap, flavour):
        k = (qcap, flavour)
        if k not in self.w:
            self.w[k] = World(build.world_path(qcap, flavour), self.prelude.get("%d,%s" % k))
        return self.w[k]

    def snapshot(self):
        """what ran last in every world process: the context a failure may depend on if the library keeps hidden state"""
        return {"%d,%s" % k: w.last_text for k, w in self.w.items() if w.last_text}

    def run(self, s, flavour="plain", budget=None, stall=None):
        recs, crash = self.get(s["qcap"], flavour).run_text(S.to_protocol(s, budget, stall))
        return Trace(recs, crash)

    def run_fresh(self, specs, flavour="plain"):
        """run several cases one after the other in ONE freshly started world process (so that whatever the library keeps
        between cat_init calls - it should keep nothing - is a function of the case, not of earlier cases)"""
        w = World(build.world_path(specs[0]["qcap"], flavour))
        out = []
        try:
            for sp in specs:
                recs, crash = w.run_text(S.to_protocol(sp))
                out.append(Trace(recs, crash))
                if crash:
                    break
        finally:
            w.stop()
        return out

    def close(self):
        for w in self.w.values():
            w.stop()
        self.w = {}
