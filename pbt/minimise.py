"""Second-stage structural minimiser working on the decoded Spec (DESIGN 3.1).

Hypothesis shrinks the byte buffer; that leaves structurally large cases.  This pass deletes groups /
commands / variables / script steps / lines / actions / schedule runs and simplifies values, keeping a
change whenever the caller's predicate (oracle still fails with the same signature) holds."""
from . import spec as S


def _remap_cmd_refs(s, removed):
    """after deleting command index 'removed': fix indices in actions and script side-actions"""
    def fix(kind, a1):
        if kind in (S.WA_TRIG, S.WA_ISBUFFERED, S.WA_SETDIS, S.WA_POKE):
            if a1 == removed:
                return None
            return a1 - 1 if a1 > removed else a1
        return a1
    acts = []
    for a in s["actions"]:
        n = fix(a[2], a[3])
        if n is None:
            continue
        b = list(a)
        b[3] = n
        acts.append(b)
    s["actions"] = acts
    for c in S.all_cmds(s):
        for st in c["scripts"].values():
            for x in st:
                if x["act"]:
                    n = fix(x["act"], x["a1"])
                    if n is None:
                        x["act"] = 0
                    else:
                        x["a1"] = n


def _candidates(s):
    """yield simplified clones of s (coarse to fine)"""
    # lines
    parts = s["input"].split(b"\n")
    if len(parts) > 2:
        for i in range(len(parts) - 1):
            c = S.clone(s)
            c["input"] = b"\n".join(parts[:i] + parts[i + 1:])
            yield c
    # schedules, actions
    for key in ("rs", "ws"):
        if s[key]:
            c = S.clone(s)
            c[key] = []
            yield c
    for i in range(len(s["actions"])):
        c = S.clone(s)
        del c["actions"][i]
        yield c
    # commands
    idx = 0
    aliased = any(g.get("alias") is not None for g in s["groups"])   # group indices are referenced: keep every group
    for gi, g in enumerate(s["groups"]):
        for ci in range(len(g["cmds"])):
            if sum(len(x["cmds"]) for x in s["groups"]) > 1 and not (aliased and len(g["cmds"]) == 1):
                c = S.clone(s)
                del c["groups"][gi]["cmds"][ci]
                if not c["groups"][gi]["cmds"]:
                    del c["groups"][gi]
                _remap_cmd_refs(c, idx)
                yield c
            idx += 1
    # merge groups
    if len(s["groups"]) > 1 and not aliased and not any(g["disable"] for g in s["groups"]):
        c = S.clone(s)
        c["groups"] = [dict(name=None, disable=0, cmds=[x for g in c["groups"] for x in g["cmds"]])]
        yield c
    # variables, scripts, flags
    for gi, g in enumerate(s["groups"]):
        for ci, cm in enumerate(g["cmds"]):
            for vi in range(len(cm["vars"])):
                c = S.clone(s)
                del c["groups"][gi]["cmds"][ci]["vars"][vi]
                yield c
            for key, st in cm["scripts"].items():
                for si in range(len(st)):
                    c = S.clone(s)
                    del c["groups"][gi]["cmds"][ci]["scripts"][key][si]
                    yield c
                for si, x in enumerate(st):
                    if x["edit"] or x["act"]:
                        c = S.clone(s)
                        y = c["groups"][gi]["cmds"][ci]["scripts"][key][si]
                        y["edit"] = 0
                        y["act"] = 0
                        yield c
            for fl in ("need_all", "only_test", "disable", "implicit"):
                if cm[fl]:
                    c = S.clone(s)
                    c["groups"][gi]["cmds"][ci][fl] = 0
                    yield c
            if cm["desc"] is not None:
                c = S.clone(s)
                c["groups"][gi]["cmds"][ci]["desc"] = None
                yield c
            for k in cm["h"]:
                c = S.clone(s)
                c["groups"][gi]["cmds"][ci]["h"] = cm["h"].replace(k, "")
                yield c
            for vi, v in enumerate(cm["vars"]):
                for fld in ("rcb", "wcb", "rfail", "wfail"):
                    if v[fld]:
                        c = S.clone(s)
                        c["groups"][gi]["cmds"][ci]["vars"][vi][fld] = 0
                        yield c
                if v["name"] is not None:
                    c = S.clone(s)
                    c["groups"][gi]["cmds"][ci]["vars"][vi]["name"] = None
                    yield c
    # shorten the lines themselves (drop single bytes)
    inp = s["input"]
    if len(inp) <= 200:
        for i in range(len(inp)):
            if inp[i] != 10:
                c = S.clone(s)
                c["input"] = inp[:i] + inp[i + 1:]
                yield c


def minimise_spec(s, still_fails, max_rounds=12, max_tests=3000):
    tests = 0
    cur = S.clone(s)
    for _ in range(max_rounds):
        progress = False
        restart = True
        while restart and tests < max_tests:
            restart = False
            for cand in _candidates(cur):
                tests += 1
                if tests >= max_tests:
                    break
                try:
                    ok = still_fails(cand)
                except Exception:
                    ok = False
                if ok:
                    cur = cand
                    progress = True
                    restart = True
                    break
        if not progress:
            break
    return cur
