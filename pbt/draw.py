"""Byte-backed draw interface: every random choice of a generator comes from one byte string
supplied by Hypothesis (st.binary), so cases replay from the seed and shrink, without the
per-draw overhead of nested composite strategies.  Byte 0 always selects the simplest
alternative, which is the direction Hypothesis shrinks in.  Exhausted buffer => zeros."""


class Draw:
    __slots__ = ("b", "i", "exhausted")

    def __init__(self, blob):
        self.b = blob
        self.i = 0
        self.exhausted = False

    def byte(self):
        if self.i < len(self.b):
            v = self.b[self.i]
            self.i += 1
            return v
        self.exhausted = True
        return 0

    def below(self, n):
        """0..n-1; 0 is the simplest"""
        if n <= 1:
            return 0
        if n <= 256:
            return self.byte() % n
        v = 0
        k = n - 1
        while k > 0:
            v = (v << 8) | self.byte()
            k >>= 8
        return v % n

    def rng(self, lo, hi):
        return lo + self.below(hi - lo + 1)

    def pick(self, seq):
        return seq[self.below(len(seq))]

    def chance(self, num, den):
        """true with probability num/den; byte 0 -> True (use for the 'simple' branch)"""
        return self.byte() % den < num

    def unlikely(self, num, den):
        """true with probability num/den; byte 0 -> False (use for the 'exotic' branch)"""
        return (self.byte() % den) >= den - num

    def bytes(self, n):
        return bytes(self.byte() for _ in range(n))

    def weighted(self, pairs):
        """pairs: [(weight, value)...]; first is simplest"""
        tot = sum(w for w, _ in pairs)
        x = self.below(tot)
        for w, v in pairs:
            if x < w:
                return v
            x -= w
        return pairs[-1][1]
