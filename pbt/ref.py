"""Reference pieces (DESIGN.md 3.3): small line-level re-statements of the documented behaviour.

They are NOT a port of the byte-level state machine: they work on whole lines, whole argument
texts and whole response texts, with Python big integers and byte strings.

  Resolver      resolve()            name -> command
  LineSyntax    classify_line()      raw line -> request form
  ArgOracle     parse_one()          typed argument text -> value / reject
  Formatter     fmt_var(), read_text(), test_text(), cmd_list_lines()
  Availability  forms_available()
  CodeTable     embedded in Model.loop_* (return code -> emit / re-invoke / finish)
  Model         composes them into a per-line prediction (output bytes, callbacks, variables)
"""
import sys
from . import spec as S
if hasattr(sys, "set_int_max_str_digits"):
    sys.set_int_max_str_digits(0)        # argument texts of 10^5 digits are part of C04's domain
from .spec import INT, UINT, HEX, BHEX, STR, RW, RO, WO, ERR, DATA_OK, DATA_NEXT, NEXT, OK, HOLD, HEX_OK, HEX_ERR, LIST

NAMECH = frozenset(b"ABCDEFGHIJKLMNOPQRSTUVWXYZ0123456789+#$@_%&")


def up(b):
    return b - 32 if 97 <= b <= 122 else b


def upname(bs):
    return bytes(up(b) for b in bs)


# ---------------------------------------------------------------- Resolver

def resolve(names, disabled, typed):
    """names: registered names (bytes) in registration order; disabled: list of bool; typed: bytes.
    Returns index of the selected command or None (no match / ambiguous abbreviation)."""
    t = upname(typed)
    if not t:
        return None
    for i, nm in enumerate(names):
        if not disabled[i] and upname(nm) == t:
            return i
    cand = [i for i, nm in enumerate(names) if not disabled[i] and len(nm) > len(t) and upname(nm[:len(t)]) == t]
    return cand[0] if len(cand) == 1 else None


def prefix_candidates(names, disabled, typed):
    t = upname(typed)
    return [i for i, nm in enumerate(names) if not disabled[i] and len(nm) >= len(t) and upname(nm[:len(t)]) == t]


# ---------------------------------------------------------------- Availability

def readable(c):
    return any(v["access"] in (RW, RO) for v in c["vars"])


def writable(c):
    return any(v["access"] in (RW, WO) for v in c["vars"])


def forms_available(c):
    """which request forms the dispatcher accepts for an enabled command: subset of 'n' (run), 'r', 'w', 't'"""
    f = set()
    if not c["only_test"]:
        if "n" in c["h"]:
            f.add("n")
        if "r" in c["h"] or readable(c):
            f.add("r")
        if "w" in c["h"] or writable(c):
            f.add("w")
    if ("t" in c["h"] or c["vars"]) and not c["implicit"]:
        f.add("t")
    return f


# ---------------------------------------------------------------- ArgOracle

HEXD = frozenset(b"0123456789abcdefABCDEF")


def parse_one(v, args, pos):
    """Decode one typed argument starting at args[pos].
    Returns ('ok', value, newpos, comma) or ('bad', partial) where partial is the decoded prefix a rejected
    hex-buffer / string argument may already have stored (None for numeric types).
    The argument ends at ',' or at the end of the text (a NUL byte ends the text, DESIGN 4.3)."""
    t = v["type"]
    z = args.find(b"\0")
    if z >= 0:
        args = args[:z]
    n = len(args)

    def at(p):
        return args[p] if p < n else 0

    if t in (INT, UINT):
        p = pos
        sign = 1
        if t == INT and at(p) in (43, 45):
            sign = -1 if at(p) == 45 else 1
            p += 1
        q = p
        while 48 <= at(q) <= 57:
            q += 1
        if q == p or at(q) not in (0, 44):
            return ("bad", None)
        return ("ok", sign * int(args[p:q]), q + 1, at(q) == 44)
    if t == HEX:
        p = pos
        if at(p) != 48 or at(p + 1) not in (88, 120):
            return ("bad", None)
        p += 2
        q = p
        while q < n and args[q] in HEXD:
            q += 1
        if q == p or at(q) not in (0, 44):
            return ("bad", None)
        return ("ok", int(args[p:q], 16), q + 1, at(q) == 44)
    if t == BHEX:
        q = pos
        while q < n and args[q] in HEXD:
            q += 1
        pairs = (q - pos) // 2
        dec = bytes.fromhex(args[pos:pos + 2 * pairs].decode("ascii"))
        if q == pos or (q - pos) % 2 or at(q) not in (0, 44):
            return ("bad", dec)
        return ("ok", dec, q + 1, at(q) == 44)
    # string
    p = pos
    out = bytearray()
    if at(p) != 34:
        return ("bad", b"")
    p += 1
    while True:
        ch = at(p)
        if ch == 0:
            return ("bad", bytes(out))
        if ch == 92:
            e = at(p + 1)
            if e == 92:
                out.append(92)
            elif e == 34:
                out.append(34)
            elif e == 110:
                out.append(10)
            else:
                return ("bad", bytes(out))
            p += 2
            continue
        if ch == 34:
            p += 1
            break
        out.append(ch)
        p += 1
    if at(p) not in (0, 44):
        return ("bad", bytes(out))
    return ("ok", bytes(out), p + 1, at(p) == 44)


def num_range(v):
    sz = v["size"]
    if sz not in (1, 2, 4):
        return None
    if v["type"] == INT:
        return (-(1 << (8 * sz - 1)), (1 << (8 * sz - 1)) - 1)
    return (0, (1 << (8 * sz)) - 1)


def same_value(v, a, b):
    """do two storage images of variable v hold the same value?  A string's value ends at its terminator: what a WRITE leaves
    in the bytes behind it (still inside data_size) is not fixed by any statement."""
    if v["type"] == STR:
        return bytes(a).split(b"\0")[0] == bytes(b).split(b"\0")[0] and (b"\0" in bytes(a)) == (b"\0" in bytes(b))
    return bytes(a) == bytes(b)


# ---------------------------------------------------------------- Formatter

def fmt_var(v, data):
    t, sz, acc = v["type"], v["size"], v["access"]
    if t in (INT, UINT, HEX):
        if sz not in (1, 2, 4):
            return None
        val = int.from_bytes(data[:sz], "little", signed=(t == INT))
        if acc == WO:
            val = 0
        if t == HEX:
            return b"0x%0*X" % (2 * sz, val)
        return b"%d" % val
    if t == BHEX:
        return b"".join(b"%02X" % (0 if acc == WO else x) for x in data[:sz])
    out = bytearray(b'"')
    if acc != WO:
        for x in data[:sz]:
            if x == 0:
                break
            if x == 0x5C:
                out += b"\\\\"
            elif x == 0x22:
                out += b'\\"'
            elif x == 0x0A:
                out += b"\\n"
            else:
                out.append(x)
    out += b'"'
    return bytes(out)


def type_name(v):
    t, sz = v["type"], v["size"]
    if t in (INT, UINT, HEX):
        if sz not in (1, 2, 4):
            return None
        return {INT: b"INT", UINT: b"UINT", HEX: b"HEX"}[t] + b"%d" % (8 * sz)
    return b"HEXBUF" if t == BHEX else b"STRING"


def info_token(v):
    tn = type_name(v)
    if tn is None:
        return None
    return b"<" + ((v["name"] + b":") if v["name"] is not None else b"") + tn + b"[" + [b"RW", b"RO", b"WO"][v["access"]] + b"]>"


def test_text(c, nl):
    """full TEST response text of a command, or None when a variable cannot be described"""
    t = bytes(c["name"]) + b"="
    for k, v in enumerate(c["vars"]):
        tok = info_token(v)
        if tok is None:
            return None
        t += (b"," if k else b"") + tok
    if c["desc"] is not None:
        t += nl + c["desc"]
    return t


def cmd_list_lines(cmds, disabled, nl):
    """command list as a list of complete line texts (including their newlines), in order"""
    lines = []
    for i, c in enumerate(cmds):
        if disabled[i]:
            continue
        forms = []
        if c["only_test"]:
            if "t" in c["h"] or c["vars"]:
                forms.append(b"=?")
        else:
            if "n" in c["h"]:
                forms.append(b"")
            if "r" in c["h"] or readable(c):
                forms.append(b"?")
            if "w" in c["h"] or writable(c):
                forms.append(b"=")
            if "t" in c["h"] or c["vars"]:
                forms.append(b"=?")
        first = True
        for f in forms:
            lines.append((i, f, (nl if first else b"") + b"AT" + c["name"] + f + nl))
            first = False
    return lines


# ---------------------------------------------------------------- LineSyntax

def split_lines(inp):
    """split an input stream at LF; returns (complete_lines_without_LF, tail_without_LF)"""
    parts = inp.split(b"\n")
    return parts[:-1], parts[-1]


def is_blank(raw):
    return all(b == 13 for b in raw)


def line_newline(raw):
    """newline style of the response to a raw line (without its LF): CRLF iff a CR follows the first non-CR byte"""
    j = 0
    while j < len(raw) and raw[j] == 13:
        j += 1
    return b"\r\n" if 13 in raw[j + 1:] else b"\n"


class LinePred:
    __slots__ = ("blank", "nl", "result", "out", "cbs", "target", "form", "typed", "args", "hold", "listed",
                 "units", "args_overlong", "parsed", "reached_handler", "unknown")

    def __init__(self):
        self.blank = False
        self.nl = b"\n"
        self.result = None      # b"OK" / b"ERROR" / None (blank line or hold)
        self.out = bytearray()  # complete expected output for the line
        self.cbs = []           # expected callbacks in order
        self.target = None      # resolved command index
        self.form = None        # 'n','r','w','t' or None
        self.typed = b""
        self.args = None
        self.hold = False
        self.listed = False
        self.units = []         # payloads of data units (without result code)
        self.args_overlong = False
        self.parsed = 0
        self.reached_handler = False
        self.unknown = False    # prediction not defined by the statements (caller skips the case)


class Unknown(Exception):
    """the statements do not define the behaviour for this input (DESIGN section 4)"""


class Model:
    """Per-line reference model of the command state machine plus an event formatter.

    Variable storage, script positions and variable-callback counters are tracked so that
    sequences of lines can be predicted."""

    def __init__(self, s, strict_ro_overflow=False):
        self.s = s
        self.cs = S.all_cmds(s)
        self.names = [c["name"] for c in self.cs]
        self.grp = S.group_of(s)
        self.cdis = [bool(c["disable"]) for c in self.cs]
        self.gdis = [bool(g["disable"]) for g in s["groups"]]
        self.slots = S.slots(s)        # registrations in table order (differs from the command list only with aliased groups)
        self.data = {(i, k): bytearray((v["init"] + bytes(v["size"]))[:v["size"]]) for i, c in enumerate(self.cs) for k, v in enumerate(c["vars"])}
        self.pos = {}
        self.vcalls = {}
        self.linereset = bool(s["flags"] & S.WF_LINERESET)
        self.ccap = S.ccap(s)
        self.ucap = S.ucap(s)
        self.pending_acts = []   # side actions requested by script steps, in order: (act, a1, a2, a3)
        # hex-buffer / string variables whose content is not defined any more: a WRITE was rejected after part of their argument
        # had been decoded.  C05 only fixes what a SUCCESSFUL write leaves (and that nothing at or beyond data_size is touched);
        # whether a rejected one leaves the old value, a decoded prefix or a mixture is the implementation's business.
        self.unknown = set()

    # ----- state helpers
    def dis(self):
        """per command: hidden from the input stream (every registration of it is disabled)"""
        r = [True] * len(self.cs)
        for (i, g), x in zip(self.slots, self.slot_dis()):
            if not x:
                r[i] = False
        return r

    def slot_dis(self):
        return [self.cdis[i] or self.gdis[g] for i, g in self.slots]

    def script(self, i, fsm, kind):
        st = self.cs[i]["scripts"].get("%d%s" % (fsm, kind), [])
        p = self.pos.get((i, fsm, kind), 0)
        if p < len(st):
            self.pos[(i, fsm, kind)] = p + 1
            x = st[p]
            if x["act"]:
                self.pending_acts.append((x["act"], x["a1"], x["a2"], x.get("a3")))
                if x["act"] == S.WA_POKE:
                    d = self.data.get((x["a1"], x["a2"]))
                    if d is not None:
                        a3 = x.get("a3") or b""
                        n = min(len(a3), len(d))
                        d[:n] = a3[:n]
            return x
        return None

    def vcb(self, cbs, i, k, kind, ws):
        v = self.cs[i]["vars"][k]
        if not v["rcb" if kind == "r" else "wcb"]:
            return 0
        n = self.vcalls.get((i, k, kind), 0) + 1
        self.vcalls[(i, k, kind)] = n
        fail = n == v["rfail" if kind == "r" else "wfail"]
        cbs.append(("V", i, k, kind, ws, fail))
        return 1 if fail else 0

    def new_line(self):
        if self.linereset:
            self.pos = {}
            self.vcalls = {}

    # ----- texts (with callbacks and capacity)
    def read_text(self, cbs, i, cap):
        """returns (text, has_readable_vars) or None (ERROR)"""
        c = self.cs[i]
        t = bytes(c["name"])
        if len(t) >= cap:
            return None
        t += b"="
        if len(t) >= cap:
            return None
        if not readable(c):
            return t, False
        for k, v in enumerate(c["vars"]):
            if k > 0:
                if len(t) >= cap:
                    self._later_read_callbacks(c, k)
                    return None
                t += b","
            if self.vcb(cbs, i, k, "r", 0):
                return None
            if (i, k) in self.unknown and v["access"] != WO:
                raise Unknown("READ of a buffer variable whose last WRITE was rejected part-way")
            f = fmt_var(v, self.data[(i, k)])
            if f is None or len(t) + len(f) >= cap:
                self._later_read_callbacks(c, k + 1)
                return None
            t += f
        return t, True

    @staticmethod
    def _later_read_callbacks(c, k):
        """a READ is abandoned (text does not fit / unsupported width) in front of variable k: whether the read callbacks of the
        variables behind that point have been or will be called is not fixed by any statement (C10 only says that a FAILING callback
        aborts before the command handler)"""
        if any(v["rcb"] for v in c["vars"][k:]):
            raise Unknown("READ abandoned while later variables still have read callbacks")

    def test_text(self, i, cap, nl):
        c = self.cs[i]
        t = bytes(c["name"])
        if len(t) >= cap:
            return None
        t += b"="
        if len(t) >= cap:
            return None
        for k, v in enumerate(c["vars"]):
            if k > 0:
                if len(t) >= cap:
                    return None
                t += b","
            f = info_token(v)
            if f is None or len(t) + len(f) >= cap:
                return None
            t += f
        if c["desc"] is not None:
            if len(t) + len(nl) >= cap:
                return None
            t += nl
            if len(t) + len(c["desc"]) >= cap:
                return None
            t += c["desc"]
        return t

    @staticmethod
    def apply_edit(t, st, cap):
        if st is None:
            return t
        tag = st["tag"] or b""
        if st["edit"] == 1 and len(tag) < cap:
            return bytes(tag)
        if st["edit"] == 2 and len(t) + len(tag) < cap:
            return t + bytes(tag)
        return t

    def cmd_list(self, p, cap):
        """append the command list to p.out; returns b'OK' / b'ERROR'"""
        p.listed = True
        for i, f, text in cmd_list_lines([self.cs[i] for i, g in self.slots], self.slot_dis(), p.nl):
            if len(text) >= cap:
                return b"ERROR"
            p.out += text
        return b"OK"

    # ----- loops (CodeTable)
    def loop_text(self, p, i, kind, fsm=0):
        """read ('r') / test ('t') processing; for fsm 0 returns the result code, for fsm 1 returns None"""
        c = self.cs[i]
        cap = self.ccap if fsm == 0 else self.ucap
        nl = p.nl
        while True:
            if kind == "r":
                r = self.read_text(p.cbs, i, cap)
                if r is None:
                    return b"ERROR"
                t, hasvars = r
                if "r" not in c["h"]:
                    if not hasvars:
                        return b"ERROR"
                    p.units.append(t)
                    p.out += nl + t + nl
                    return b"OK"
            else:
                t = self.test_text(i, cap, nl)
                if t is None:
                    return b"ERROR"
                if "t" not in c["h"]:
                    p.units.append(t)
                    p.out += nl + t + nl
                    return b"OK"
            st = self.script(i, fsm, kind)
            code = st["code"] if st else OK
            t2 = self.apply_edit(t, st, cap)
            p.cbs.append(("H", "c" if fsm == 0 else "u", i, kind, bytes(t), bytes(t2), code))
            p.reached_handler = True
            if code == OK:
                return b"OK"
            if code == DATA_OK:
                p.units.append(t2)
                p.out += nl + t2 + nl
                return b"OK"
            if code == DATA_NEXT:
                p.units.append(t2)
                p.out += nl + t2 + nl
                continue
            if code == NEXT:
                continue
            if code == HOLD:
                if fsm == 1:
                    raise Unknown("HOLD from an unsolicited handler")
                p.hold = True
                return None
            if code == HEX_OK:
                return b"OK"
            if code == HEX_ERR:
                return b"ERROR"
            if code == LIST and kind == "t":
                if fsm == 1:
                    return b"OK"
                return self.cmd_list(p, cap)
            return b"ERROR"

    def loop_plain(self, p, i, kind, args=b"", cnt=0):
        """write ('w') / run ('n') handler loop"""
        while True:
            st = self.script(i, 0, kind)
            code = st["code"] if st else OK
            p.cbs.append(("H", "c", i, kind, bytes(args), cnt, code))
            p.reached_handler = True
            if code in (OK, DATA_OK):
                return b"OK"
            if code in (NEXT, DATA_NEXT):
                continue
            if code == HOLD:
                p.hold = True
                return None
            if code == LIST and kind == "n":
                return self.cmd_list(p, self.ccap)
            return b"ERROR"

    def parse_args(self, p, i, args):
        """typed argument parsing with stores and variable callbacks; returns (ok, parsed_count)"""
        c = self.cs[i]
        pos = 0
        k = 0
        # more arguments than variables (commas outside quoted strings): the line is an ERROR, but whether that is noticed before
        # or after the listed variables are parsed, stored and their callbacks run is not fixed by any statement
        n_args, inq, esc = 1, False, False
        for ch in args:
            if esc:
                esc = False
            elif inq and ch == 0x5C:
                esc = True
            elif ch == 0x22:
                inq = not inq
            elif ch == 0x2C and not inq:
                n_args += 1
        if n_args > len(c["vars"]):
            raise Unknown("more arguments than variables")
        while True:
            v = c["vars"][k]
            r = parse_one(v, args, pos)
            ro = v["access"] == RO
            d = self.data[(i, k)]
            sz = v["size"]
            if r[0] == "bad":
                part = r[1]
                if part is not None and not ro:
                    # hex buffers and strings may be decoded in place: a rejected argument may leave a prefix
                    n = min(len(part), sz)
                    d[:n] = part[:n]
                    if n:
                        self.unknown.add((i, k))
                return False, k
            _, val, pos, comma = r
            if v["type"] in (INT, UINT, HEX):
                if abs(val) >= (1 << 63) and (ro or abs(val) >= (1 << 64) or v["type"] == INT):
                    if ro:
                        raise Unknown("out-of-64-bit numeric text addressed to a read-only variable")
                if ro:
                    rg = num_range(v)
                    if rg is None or not (rg[0] <= val <= rg[1]):
                        # C04 speaks of writable variables, C08 only forbids storing: whether the text addressed to a read-only
                        # integer is range-checked at all is not fixed
                        raise Unknown("numeric text outside the range of the read-only variable it addresses")
                    ws = 0
                else:
                    rg = num_range(v)
                    if rg is None or not (rg[0] <= val <= rg[1]):
                        return False, k
                    d[:sz] = val.to_bytes(sz, "little", signed=(v["type"] == INT))
                    ws = sz
            elif v["type"] == BHEX:
                if len(val) > sz:
                    if not ro:
                        d[:sz] = val[:sz]
                        self.unknown.add((i, k))
                    return False, k
                if not ro:
                    d[:len(val)] = val
                    if len(val) == sz:
                        self.unknown.discard((i, k))
                ws = 0 if ro else len(val)
            else:
                if len(val) >= sz:
                    if not ro:
                        d[:sz] = val[:sz]
                        self.unknown.add((i, k))
                    return False, k
                if not ro:
                    d[:len(val) + 1] = val + b"\0"
                    self.unknown.discard((i, k))
                ws = 0 if ro else len(val)
            if self.vcb(p.cbs, i, k, "w", ws):
                return False, k + 1
            k += 1
            if comma and k < len(c["vars"]):
                continue
            if comma:
                # every variable got a valid argument and more follow: ERROR, but whether the listed variables were stored (and their
                # callbacks run) before the surplus was noticed is not fixed - C04 / C05 only speak of the variable whose own text is bad
                raise Unknown("more arguments than variables")
            if c["need_all"] and k != len(c["vars"]):
                return False, k
            return True, k

    # ----- one line
    def line(self, raw):
        """raw: one input line without its LF. Returns a LinePred."""
        p = LinePred()
        self.new_line()
        self.pending_acts = []
        j = 0
        while j < len(raw) and raw[j] == 13:
            j += 1
        if j == len(raw):
            p.blank = True
            return p
        p.nl = line_newline(raw)
        res = self._line(p, [x for x in raw[j:] if x != 13])
        p.result = res
        if res is not None:
            p.out += p.nl + res + p.nl
        return p

    def _line(self, p, body):
        cap = self.ccap
        dis = self.slot_dis()
        scs = [self.cs[i] for i, g in self.slots]
        if up(body[0]) != 65:
            return b"ERROR"
        if len(body) < 2 or up(body[1]) != 84:
            return b"ERROR"
        body = body[2:]
        n = 0
        typed = bytearray()
        form = None
        while True:
            if n == len(body):
                if not typed:
                    return b"OK"
                form = "n"
                break
            ch = body[n]
            if ch == 63:
                if not typed or n + 1 != len(body):
                    p.typed = bytes(typed)
                    return b"ERROR"
                form = "r"
                break
            if ch == 61:
                if not typed:
                    return b"ERROR"
                form = "w"
                n += 1
                break
            if up(ch) in NAMECH:
                typed.append(up(ch))
                n += 1
                if any((not dis[i]) and c["implicit"] and upname(c["name"]) == bytes(typed) for i, c in enumerate(scs)):
                    form = "w"
                    break
                continue
            p.typed = bytes(typed)
            return b"ERROR"
        p.typed = bytes(typed)
        i = resolve([c["name"] for c in scs], dis, bytes(typed))
        p.form = form
        if i is None:
            return b"ERROR"
        i = self.slots[i][0]
        p.target = i
        c = self.cs[i]
        if form == "n":
            if c["only_test"] or "n" not in c["h"]:
                return b"ERROR"
            return self.loop_plain(p, i, "n")
        if form == "r":
            if c["only_test"]:
                return b"ERROR"
            return self.loop_text(p, i, "r")
        args = bytes(body[n:])
        p.args = args
        if args[:1] == b"?" and ("t" in c["h"] or c["vars"]) and not c["implicit"]:
            p.form = "t"
            if len(args) != 1:
                return b"ERROR"
            return self.loop_text(p, i, "t")
        if len(args) >= cap:
            p.args_overlong = True
            return b"ERROR"
        if c["only_test"]:
            return b"ERROR"
        cnt = 0
        if writable(c):
            ok, cnt = self.parse_args(p, i, args)
            p.parsed = cnt
            if not ok:
                return b"ERROR"
            if "w" not in c["h"]:
                return b"OK"
        elif "w" not in c["h"]:
            return b"ERROR"
        return self.loop_plain(p, i, "w", args, cnt)

    # ----- one unsolicited event
    def event(self, i, typ, nl=b"\n"):
        """process one accepted event (typ 0 READ, 1 TEST) alone; returns a LinePred whose units are the
        payloads of the emitted data units (newline style of each unit is decided by the library at emission)"""
        p = LinePred()
        p.nl = nl
        p.target = i
        p.form = "r" if typ == 0 else "t"
        self.pending_acts = []
        self.loop_text(p, i, p.form, fsm=1)
        return p
